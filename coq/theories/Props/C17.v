(* C17: the pool hands each object to one holder at a time and never blocks.
   The model is a state machine over all operation sequences (any clients, any capacity >= 0);
   since the two channel operations are atomic, every concurrent execution is one such sequence.
   Assumed, not modelled: atomicity and FIFO order of Go channel operations. *)
From Coq Require Import List Arith.
From GH Require Import Model.Pool Proofs.PoolProofs.
Import ListNotations.

Theorem C17_invariant_reachable : forall ops size, Inv (run_ops ops (new_pool size)).
Proof. intros ops size. apply pool_inv_reachable, new_pool_inv. Qed.
Print Assumptions C17_invariant_reachable.

Theorem C17_never_exceeds_size : forall size ops, length (idle (run_ops ops (new_pool size))) <= size.
Proof. exact pool_never_exceeds_size. Qed.
Print Assumptions C17_never_exceeds_size.

Theorem C17_get_never_blocks : forall p c, exists o, snd (pstep p (PGet c)) = Some o.
Proof. exact get_total. Qed.
Theorem C17_return_never_blocks : forall p c o, snd (pstep p (PReturn c o)) = None.
Proof. exact return_total. Qed.

Theorem C17_get_exclusive : forall p c o, Inv p -> snd (pstep p (PGet c)) = Some o ->
  holder p o = None /\ holder (fst (pstep p (PGet c))) o = Some c /\ ~ In o (idle (fst (pstep p (PGet c)))).
Proof. exact get_exclusive. Qed.
Print Assumptions C17_get_exclusive.

Theorem C17_get_empty_fresh : forall p c, Inv p -> idle p = [] ->
  snd (pstep p (PGet c)) = Some (next p) /\ holder p (next p) = None.
Proof. exact get_empty_fresh. Qed.

Theorem C17_return_idle_once_or_dropped : forall p c o, Inv p -> holder p o = Some c ->
  let p' := fst (pstep p (PReturn c o)) in
  holder p' o = None /\ (count_occ Nat.eq_dec (idle p') o = 1 \/ (~ In o (idle p') /\ length (idle p) = cap p)).
Proof. exact return_idle_once_or_dropped. Qed.
Print Assumptions C17_return_idle_once_or_dropped.

Example C17_nonvacuous :
  Inv {| cap := 2; idle := [0]; holder := fun o => if Nat.eqb o 1 then Some 7 else None; next := 2 |}.
Proof. exact pool_nonvacuous. Qed.
