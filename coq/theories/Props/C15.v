(* C15: a failing destination writer always surfaces as an encode error.
   The encoder model records one chunk per Write call (validated against the implementation's
   Write calls by the correspondence run); the writer is a parameter answering the k-th call with
   a count and an error flag; stickyWriter is modelled by sticky_run. *)
From Coq Require Import ZArith List.
From GH Require Import Base.Result Model.Scalars Spec.Grammar Model.Encoder Proofs.EncoderFacts.
Import ListNotations.

(* for every value, every index k of a Write call made while encoding it, and every fault kind
   (an error, or a short count with or without an error): the encode call fails *)
Theorem C15_fault_surfaces : forall w nm v ws k x,
  encode_writes nm v = Ok ws -> nth_error ws k = Some x -> write_fails w k x -> encode_to w nm v = Err ECodec.
Proof. exact fault_surfaces_encode. Qed.
Print Assumptions C15_fault_surfaces.

Theorem C15_sticky : forall w writes k x,
  nth_error writes k = Some x -> write_fails w k x -> sticky_run w 0 writes = true.
Proof. exact fault_surfaces. Qed.
Print Assumptions C15_sticky.

Example C15_nonvacuous :
  let w : writer_model := fun k x => if (k =? 2)%nat then (0%nat, true) else (length x, false) in
  exists ws, encode_writes [] (VSlice 0 [91%Z] [VInt KInt32 1; VStr [104%Z]]) = Ok ws /\ length ws = 4%nat /\
  encode_to w [] (VSlice 0 [91%Z] [VInt KInt32 1; VStr [104%Z]]) = Err ECodec.
Proof. exact fault_nonvacuous. Qed.
