(* C12: separate serializers sharing name/type maps run concurrently, race-free.
   Dynamic half: threads are resumptions over a shared store; for ANY schedule, if no thread
   writes the shared store, the store never changes and every thread follows its solo
   trajectory - a thread that has returned has returned its solo result.  The instantiation
   premise - with a complete name map the encoder's only shared write is not taken - is proved
   on the encoder model.  Not modelled: the Go memory model at instruction granularity (the
   race detector's verdict in the harness is supporting evidence, not a theorem). *)
From Coq Require Import List Arith.
From GH Require Import Base.Result Model.Scalars Spec.Grammar Model.Encoder Model.Session Model.Conc Proofs.SessionProofs.
Import ListNotations.

Theorem C12_readers_commute : forall (key val res : Type) (key_eqb : key -> key -> bool) sched s (ps : list (prog key val res)),
  Forall (wfree key val res) ps ->
  let '(s', ps') := run key val res key_eqb sched s ps in
  s' = s /\ length ps' = length ps /\
  forall j p, nth_error ps j = Some p -> exists p', nth_error ps' j = Some p' /\ reaches key val res key_eqb s p p'.
Proof. exact readers_commute. Qed.
Print Assumptions C12_readers_commute.

Theorem C12_returned_is_solo_result : forall (key val res : Type) (key_eqb : key -> key -> bool) s p r,
  reaches key val res key_eqb s p (Ret r) -> wfree key val res p -> exists n, alone key val res key_eqb n s p = Some r.
Proof. exact reaches_ret. Qed.
Print Assumptions C12_returned_is_solo_result.

(* the premise for the encoder: a complete shared name map is only read *)
Theorem C12_complete_maps_no_shared_write : forall v st st',
  nm_complete (enm st) v = true -> write_data v st = Ok st' -> enm st' = enm st.
Proof. exact complete_maps_unchanged. Qed.
Print Assumptions C12_complete_maps_no_shared_write.
