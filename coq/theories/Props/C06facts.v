(* C06, tie to the source: every read entry point unwraps the decoder's internal carriers *)
From Coq Require Import String List Bool.
From GH Require Import Gen.GoFacts Proofs.FactsLib.
Import ListNotations.
Open Scope string_scope.
Theorem C06_reads_unwrap_carriers :
  all_pairs [("Decoder.ReadObject", "EnsureInterface"); ("Decoder.ReadFrom", "ReadObject"); ("goHessian.Read", "decoder.ReadObject");
             ("goHessian.ReadFrom", "decoder.ReadFrom"); ("Decoder.readUntypedList", "EnsureInterface")] calls = true.
Proof. vm_compute. reflexivity. Qed.
