(* C08: every float64 encodes, decodes to the same number, in the shortest exact form.
   A float is its bit pattern; gencodeDouble is translated from double.go by go2v on every run
   over the trusted primitives of Base/FloatBits.v (trunc64, of_int64, narrow, widen, f64_eq);
   decode_double is the hand model of decodeDoubleValue. *)
From Coq Require Import ZArith List.
From GH Require Import Base.GoSem Base.Result Base.FloatBits Gen.GoLeaf Model.Scalars
  Proofs.FloatFacts Proofs.DoubleProofs.
Import ListNotations.
Open Scope Z_scope.

Theorem C08_double_never_errors : forall b, exists bs, gencodeDouble b = Ok bs.
Proof. exact double_never_errors. Qed.
Print Assumptions C08_double_never_errors.

(* all 2^64 bit patterns: same number back (NaN to NaN, either zero to zero), exact framing *)
Theorem C08_double_roundtrip : forall b rest bs, in_f64 b -> gencodeDouble b = Ok bs ->
  exists d, decode_double (bs ++ rest) = Ok (d, rest) /\ feq d b = true.
Proof. exact double_roundtrip. Qed.
Print Assumptions C08_double_roundtrip.

(* shortest: an integer in [-32768,32767] takes 1 (0 and 1), 2 ([-128,127]) or 3 octets *)
Theorem C08_double_shortest_int : forall b n bs,
  in_f64 b -> -32768 <= n <= 32767 -> f64_eq (of_int64 n) b = true ->
  gencodeDouble b = Ok bs -> length bs = int_form_len n.
Proof. exact double_shortest_int. Qed.
Print Assumptions C08_double_shortest_int.

(* ... and forms of 1..3 octets are used for nothing else *)
Theorem C08_double_forms_exact : forall b bs, gencodeDouble b = Ok bs -> (length bs <= 3)%nat ->
  exists n, -32768 <= n <= 32767 /\ f64_eq (of_int64 n) b = true /\ length bs = int_form_len n.
Proof. exact double_forms_exact. Qed.
Print Assumptions C08_double_forms_exact.

(* the 5-octet form is used only for a value that is exactly a float32 *)
Theorem C08_double_form5_exact : forall b bs, in_f64 b -> gencodeDouble b = Ok bs -> length bs = 5%nat ->
  exists f, in_f32 f /\ f64_eq (widen f) b = true.
Proof. exact double_form5_exact. Qed.
Print Assumptions C08_double_form5_exact.

(* full statement of the remaining direction: every value that is exactly a float32 and is not
   a small integer takes 5 octets *)
Definition C08_shortest_f32_statement : Prop := forall b f bs,
  in_f64 b -> in_f32 f -> is_nan32 f = false -> f64_eq (widen f) b = true ->
  (forall n, -32768 <= n <= 32767 -> f64_eq (of_int64 n) b = false) ->
  gencodeDouble b = Ok bs -> length bs = 5%nat.
Theorem C08_shortest_f32 : C08_shortest_f32_statement.
Proof. intros b f bs Hb Hf Hn. exact (double_shortest_f32 b f bs Hb (conj Hf Hn)). Qed.
Print Assumptions C08_shortest_f32.
(* the earlier, weaker form (normal range, zeros and infinities only), kept for reference *)
Theorem C08_double_shortest_f32_partial : forall b f bs,
  in_f64 b -> f32_plain f -> f64_eq (widen f) b = true ->
  (forall n, -32768 <= n <= 32767 -> f64_eq (of_int64 n) b = false) ->
  gencodeDouble b = Ok bs -> length bs = 5%nat.
Proof. exact double_shortest_f32_partial. Qed.
Print Assumptions C08_double_shortest_f32_partial.

Example C08_nonvacuous :
  in_f64 4611686018427387904 /\ f64_eq (of_int64 2) 4611686018427387904 = true
  /\ gencodeDouble 4611686018427387904 = Ok [93; 2]
  /\ f32_plain 1056964608 /\ f64_eq (widen 1056964608) 4602678819172646912 = true
  /\ gencodeDouble 4602678819172646912 = Ok [95; 63; 0; 0; 0].
Proof. exact double_nonvacuous. Qed.
