(* C01 for values of EVERY shape the encoder model accepts (interface-typed positions, untyped
   lists, float32, lists and maps shared between positions, maps with any key kind included):
   the byte-level part of the round trip, in both directions.

   Encoding v yields bytes that the reference grammar reads as an abstract value hv denoting v
   (`den`, C02); decoding those bytes succeeds with d exactly when d is a meaning of hv (`sv`, the
   decoder's semantics on abstract values, C03), consumes all of them and leaves the reference
   table the meaning says.  So for every shape the round trip ToObject(ToBytes(v)) = v is
   reduced to a statement that mentions no bytes: "the meanings of what v denotes are v".  That
   last step is proved for the object-graph fragment in Props/C01graph.v (directly on bytes) and
   checked by the round-trip oracle and both model correspondences for the other shapes.
   (`pok v`: the payload of every byte slice in v consists of octets; every octet the encoder
   model writes then is one - Proofs/EncBytes.v.) *)
From Coq Require Import ZArith List Lia.
From GH Require Import Base.GoSem Base.Result Base.Utf8 Gen.GoLeaf Model.Scalars Model.Strings Spec.Grammar
  Model.Encoder Model.Decoder Model.Session Proofs.EncoderFacts Proofs.EncSpec Proofs.EncBytes Proofs.DecRefines Proofs.DecRefinesConv Proofs.DenReg.
Import ListNotations.
Open Scope Z_scope.

Theorem C01_roundtrip_through_the_grammar : forall nm F v st' te tm,
  write_data v (estate0 nm) = Ok st' -> small st' -> nm_complete nm v = true ->
  wfv nm F (S (length (ebytes st'))) v -> (need v <= S (S (length (ebytes st'))))%nat ->
  pok v ->
  exists hv pst, den nm F [] v hv (erefs st') /\
    (forall d h', sv te tm hv [] d h' -> decode te tm (ebytes st') = Ok (d, [], dst_of pst h')) /\
    (forall d r s, notime v -> decode te tm (ebytes st') = Ok (d, r, s) ->
       exists h', sv te tm hv [] d h' /\ r = [] /\ s = dst_of pst h').
Proof.
  intros nm F v st' te tm W Sm Hc Hw Hn Pk. pose proof (encode_octets nm v st' Pk W) as B.
  destruct (encode_parses nm F _ v st' W Sm Hc Hw) as (hv & pst & D & V).
  assert (P : hparse pstate0 (ebytes st') = Ok (hv, [], pst)) by (unfold hparse; apply V; exact Hn).
  exists hv, pst. split; [exact D|]. split.
  - intros d h' S. eapply decoder_refines_grammar; eassumption.
  - intros d r s Nt Dc. pose proof (den_reg nm F _ _ _ _ D Nt) as Rg. eapply decode_success_is_meaning; eassumption.
Qed.
Print Assumptions C01_roundtrip_through_the_grammar.
