(* C05, end to end: an object whose class definition lists ANY fields in ANY order - some of the Go
   type's fields missing, others unknown to it - decodes to a struct in which every Go field
   holds the value of the wire field of that name (first letter case-insensitive) and every
   field that was not sent keeps its zero value; each unknown field's value is consumed exactly,
   so what follows is read from the right bytes.  Proved through both models for every such
   rendering (no bound on the number of fields, on nesting or on the objects behind pointer
   fields): the rendering is what the encoder model writes for a field list `fs` that need not be
   the Go type's field list; `bind_known` keeps the wire fields that have a Go counterpart, under
   the Go field's name, and `assoc_all (zeros_of ...)` lays them over the zero values. *)
From Coq Require Import ZArith List Lia.
From GH Require Import Base.GoSem Base.Result Base.Utf8 Gen.GoLeaf Model.Scalars Model.Strings Spec.Grammar
  Model.Encoder Model.Decoder Proofs.EncSpec Proofs.RoundTrip.
Import ListNotations.
Open Scope Z_scope.

Theorem C05_object_binds_by_name : forall nm F te tm ty_of a ty fs st',
  sgv nm F te tm ty_of (TPtr (TStruct ty)) (VStruct a ty fs) -> write_data (VStruct a ty fs) (estate0 nm) = Ok st' -> small st' ->
  (need_d (VStruct a ty fs) <= decode_fuel (ebytes st'))%nat ->
  exists gfs ds cells dst', te_lookup te ty = Some gfs /\ length ds = length fs /\ dgs te ty_of [(a, RStruct)] (map snd fs) ds cells (erefs st') /\
    decode te tm (ebytes st') = Ok (DPtr 0 ty, [], dst') /\
    dheap dst' = RObj ty (Some (assoc_all (zeros_of te gfs) (bind_known gfs (map fst fs) ds))) :: cells.
Proof. exact graph_decode_encode. Qed.
Print Assumptions C05_object_binds_by_name.

(* Go type  P struct { Name string; Age int32; Next *P };  the rendering lists  city, age, name
   (an unknown field first, the known ones in reverse order, Next missing) *)
Example C05_permuted_extra_missing :
  let xP : name := [80] in
  let nm : namemap := [(xP, xP)] in
  let gfs := [([78; 97; 109; 101], TStr); ([65; 103; 101], TInt KInt32); ([78; 101; 120; 116], TPtr (TStruct xP))] in
  let te : tenv := [(xP, gfs)] in let tm : typmap := [(xP, TStruct xP)] in
  let F := fun _ : name => [[99; 105; 116; 121]; [97; 103; 101]; [110; 97; 109; 101]] in
  let v := VStruct 1 xP [([67; 105; 116; 121], VStr [80; 97; 114; 105; 115]); ([65; 103; 101], VInt KInt32 30); ([78; 97; 109; 101], VStr [66; 111; 98])] in
  sgv nm F te tm (fun _ => xP) (TPtr (TStruct xP)) v /\
  exists st', write_data v (estate0 nm) = Ok st' /\ small st' /\
    exists dst', decode te tm (ebytes st') = Ok (DPtr 0 xP, [], dst') /\
      dheap dst' = [RObj xP (Some [([78; 97; 109; 101], DStr [66; 111; 98]); ([65; 103; 101], DInt KInt32 30); ([78; 101; 120; 116], DNil)])].
Proof.
  cbv zeta. split.
  - eapply (sg_struct _ _ _ _ _ 1 [80] _ [80]); try reflexivity; try lia.
    + repeat constructor; unfold valid_rune; lia.
    + repeat constructor; unfold valid_rune; lia.
    + cbn; lia.
    + apply Forall_cons; [cbn [fst snd]; intros gn gt X; vm_compute in X; discriminate|].
      apply Forall_cons; [cbn [fst snd]; intros gn gt X; vm_compute in X; inversion X; subst; constructor; unfold in_kind; cbn; lia|].
      apply Forall_cons; [cbn [fst snd]; intros gn gt X; vm_compute in X; inversion X; subst; constructor; repeat constructor; unfold valid_rune; lia|].
      apply Forall_nil.
    + apply Forall_cons; [cbn [fst snd]; intros _; exists TStr; split; [discriminate|]; split; [constructor; repeat constructor; unfold valid_rune; lia|exact I]|].
      apply Forall_cons; [cbn [fst snd]; intros X; vm_compute in X; discriminate|].
      apply Forall_cons; [cbn [fst snd]; intros X; vm_compute in X; discriminate|]. apply Forall_nil.
  - eexists. split; [vm_compute; reflexivity|]. split; [split; vm_compute; discriminate|].
    eexists. split; vm_compute; reflexivity.
Qed.
