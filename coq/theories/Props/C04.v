(* C04: shared references and cycles survive; encoder and decoder agree on ref ordinals.
   Proved on the two models: how each side numbers containers.  That the two numberings denote
   the same container for whole graphs is decided by the exhaustive graph oracle (all graphs on
   <= 3 nodes, <= 4 in the thorough tier, x 8 filler configurations) and by the model
   correspondence; a simulation theorem relating the two models is not proved. *)
From Coq Require Import ZArith List.
From GH Require Import Base.Result Model.Scalars Spec.Grammar Model.Encoder Model.Decoder Proofs.StructFacts Proofs.EncoderFacts.
Import ListNotations.
Open Scope Z_scope.

(* encoder: a container met for the first time when n containers have been registered gets
   ordinal n and keeps it whatever is registered later ... *)
Theorem C04_encoder_ordinal_is_registration_count : forall st k a, a <> 0 -> ref_find (erefs st) a k 0 = None ->
  forall more, ref_find (erefs (snd (check_ref st k a)) ++ more) a k 0 = Some (Z.of_nat (length (erefs st))).
Proof. exact encoder_ordinal_is_registration_count. Qed.
Print Assumptions C04_encoder_ordinal_is_registration_count.
(* ... and a later occurrence of the same container is written as a reference to that ordinal *)
Theorem C04_encoder_second_occurrence_is_ref : forall st k a i, ref_find (erefs st) a k 0 = Some i -> check_ref st k a = (Some i, st).
Proof. exact encoder_second_occurrence_is_ref. Qed.
(* a list and its first element (a struct and its first field) share an address: a container
   of another kind at the same address neither hides this one nor takes its ordinal *)
Theorem C04_kinds_do_not_collide : forall refs a k k' i, rkind_eqb k k' = false ->
  ref_find ((a, k') :: refs) a k i = ref_find refs a k (i + 1).
Proof. exact encoder_kinds_do_not_collide. Qed.
(* nulls, strings, byte slices, timestamps and nil/empty maps consume no ordinal on the encoder
   side (by computation on the model's definitions) *)
Theorem C04_fillers_consume_no_ordinal : forall st st', 
  (write_data VNil st = Ok st' \/ (exists rs, write_data (VStr rs) st = Ok st') \/ (exists bs, write_data (VBytes bs) st = Ok st')
   \/ (exists s n, write_data (VTime s n) st = Ok st') \/ (exists a ty, write_data (VMap a ty []) st = Ok st')) -> erefs st' = erefs st.
Proof.
  intros st st' [H|[[rs H]|[[bs H]|[[s [n H]]|[a [ty H]]]]]]; cbn [write_data] in H; inversion H; reflexivity.
Qed.
(* decoder: a back-reference whose index is the number of containers registered before an
   object yields a pointer to that very object, also while it is still under construction *)
Theorem C04_decoder_ref_hits_registered_object : forall heap n fs more tys cls bs r,
  decode_int bs = Ok (Z.of_nat (length heap), r) ->
  read_ref {| dtypes := tys; dcls := cls; dheap := heap ++ RObj n fs :: more |} bs =
  Ok (DPtr (length heap) n, r, {| dtypes := tys; dcls := cls; dheap := heap ++ RObj n fs :: more |}).
Proof. exact decoder_ref_hits_registered_object. Qed.
Print Assumptions C04_decoder_ref_hits_registered_object.

(* a self-loop through both models, by computation: struct N { Next *N } with Next pointing to itself *)
Example C04_self_loop_roundtrip :
  let v := VStruct 5 [78] [([78; 101; 120; 116], VSeen RStruct 5)] in
  let te := [([78], [([78; 101; 120; 116], TPtr (TStruct [78]))])] in
  exists bs, encode [([78], [78])] v = Ok bs /\
  exists st, decode te [([78], TStruct [78])] bs = Ok (DPtr 0 [78], [], st) /\
             nth_error (dheap st) 0 = Some (RObj [78] (Some [([78; 101; 120; 116], DPtr 0 [78])])).
Proof. cbv zeta. eexists. split; [vm_compute; reflexivity|]. eexists. split; vm_compute; reflexivity. Qed.
