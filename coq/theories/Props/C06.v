(* C06: n writes on one stream read back as the same n values, exact framing.
   Proved: (decoder model, every input) a read consumes a non-empty prefix of what is left of
   the stream and hands back exactly the rest; (encoder model) a streaming write appends its
   bytes to the stream and keeps the tables for later values.  That the k-th value read equals
   the k-th written is C01 per value plus the stream oracle (sequences of 1..50 values through
   both APIs with a byte-counting reader and the carrier check) and the reference parser run
   on whole streams (parseseq). *)
From Coq Require Import ZArith List.
From GH Require Import Base.Result Model.Scalars Spec.Grammar Model.Encoder Model.Decoder Model.Session Proofs.DecoderFacts.
Import ListNotations.

Theorem C06_read_consumes_exactly_a_prefix : forall te tm fuel st bs v rest st',
  R_rd (readers_at te tm fuel) st bs = Ok (v, rest, st') -> psuffix rest bs.
Proof. intros te tm fuel. exact (proj1 (readers_at_ok te tm fuel)). Qed.
Print Assumptions C06_read_consumes_exactly_a_prefix.

(* a streaming write starts from the tables the earlier values left (so later values may reuse
   class definitions and refer back to objects sent earlier) and reports exactly its own bytes *)
Theorem C06_streaming_write_keeps_tables : forall st v st' out,
  estep st (OWrite v) = (st', Ok out) ->
  exists s, write_data v {| ecls := ecls st; erefs := erefs st; enm := enm st; eout := [] |} = Ok s /\ st' = s /\ out = ebytes s.
Proof.
  intros st v st' out H. cbn [estep] in H.
  destruct (write_data v _) as [s1|e| |] eqn:E; inversion H; subst. exists st'. repeat split; reflexivity.
Qed.
Print Assumptions C06_streaming_write_keeps_tables.

Example C06_nonvacuous :
  exists v r st, R_rd (readers_at [] [] 8) dstate0 [145%Z; 146%Z] = Ok (v, r, st) /\ r = [146%Z].
Proof. eexists; eexists; eexists. split; vm_compute; reflexivity. Qed.
