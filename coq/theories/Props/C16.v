(* C16: type/name map extraction terminates and yields closed, mutually consistent maps.
   Model: Model/Extraction.v (ExtractTypeNameMap / ExtractValue and TypeMapOf / FetchType over a
   table of Go types and a table of value nodes, so that cyclic values and self-referential
   types are ordinary finite inputs).  Tied to /repo by the correspondence run: the harness
   exports both tables by reflection from the value it hands to the implementation and the two
   results are compared entry for entry. *)
From Coq Require Import ZArith List Bool Lia.
From GH Require Import Base.Result Model.Scalars Spec.Grammar Model.Encoder Model.Extraction Proofs.ExtractionFacts.
Import ListNotations.
Local Open Scope nat_scope.

(* ---- terminates: for EVERY type table and EVERY value heap (cyclic or not) ---- *)
Theorem C16_extract_terminates : forall builtin env h root,
  ptr_ground env -> heap_closed h -> extract builtin env h root <> Fuel.
Proof. exact extract_terminates. Qed.
Print Assumptions C16_extract_terminates.
Theorem C16_type_map_of_terminates : forall env t, ptr_ground env -> type_map_of env t <> Fuel.
Proof. exact type_map_of_terminates. Qed.
Print Assumptions C16_type_map_of_terminates.
(* the hypothesis ptr_ground is needed: a pointer type that is its own element type (type P *P)
   makes UnpackPtrType spin, in the model as in the code (known finding C16-F3) *)
Theorem C16_self_pointer_type_refuted_F3 :
  exists env t, type_map_of env t = Fuel /\ extract [] env [{| xty := t; xbd := XNil |}] (Some 0%nat) = Fuel.
Proof.
  exists [{| tname := [80%Z]; tshort := [80%Z]; tkd := KPtr 0; tcodec := None |}], 0%nat. split; vm_compute; reflexivity.
Qed.

(* ---- consistent: every name-map entry leads back to its type ---- *)
Theorem C16_walk_maps_consistent : forall env h root st, names_distinct env -> extract_walk env h root = Ok st ->
  forall k w, nm_lookup (xnm st) k = Some w ->
  exists t d, nth_error env t = Some d /\ tname d = k /\ tm_get (xtm st) k = Some t /\ tm_get (xtm st) w = Some t /\
              (w = k \/ tcodec d = Some w).
Proof. intros env h root st ND H. exact (proj2 (extract_walk_consistent env h root st ND H)). Qed.
Print Assumptions C16_walk_maps_consistent.
(* the rewriting of a list name keeps entry, new name and type in step (one step of the loop) *)
Theorem C16_list_rewrite_step : forall builtin st k r, exists v2,
  nm_lookup (xnm (rewrite_entry builtin st k (91%Z :: r))) k = Some v2 /\
  nm_lookup (xnm (rewrite_entry builtin st k (91%Z :: r))) v2 = Some v2 /\
  (forall t, tm_get (xtm st) k = Some t -> tm_get (xtm (rewrite_entry builtin st k (91%Z :: r))) v2 = Some t).
Proof. exact rewrite_entry_spec. Qed.
(* ... but two list types may be rewritten to ONE name ([]*T and []T both become "[T"), and then
   the type map can hold only one of them: the full statement is refuted (known finding C01-F2) *)
Theorem C16_list_name_collision_refuted_F2 : exists env h root st k w t t',
  extract [] env h root = Ok st /\ nm_lookup (xnm st) k = Some w /\ tm_get (xtm st) k = Some t /\ tm_get (xtm st) w = Some t' /\ t <> t'.
Proof.
  (* C struct { A []*I; B []I },  I struct {} *)
  exists [ {| tname := [67%Z]; tshort := [67%Z]; tkd := KStruct [(true, 1%nat); (true, 4%nat)]; tcodec := None |};
           {| tname := [91; 93; 42; 73]%Z; tshort := []; tkd := KSlice 2; tcodec := None |};
           {| tname := [42; 73]%Z; tshort := []; tkd := KPtr 3; tcodec := None |};
           {| tname := [73%Z]; tshort := [73%Z]; tkd := KStruct []; tcodec := None |};
           {| tname := [91; 93; 73]%Z; tshort := []; tkd := KSlice 3; tcodec := None |} ],
         [ {| xty := 0; xbd := XStruct [1; 2]%nat |}; {| xty := 1; xbd := XNil |}; {| xty := 4; xbd := XNil |} ], (Some 0%nat).
  eexists. exists [91; 93; 42; 73]%Z, [91; 73]%Z, 1%nat, 4%nat.
  split; [vm_compute; reflexivity|]. repeat split; try (vm_compute; reflexivity). discriminate.
Qed.

(* ---- closed: every registered type has its static component types registered ---- *)
Theorem C16_walk_maps_closed : forall env h root st, names_distinct env -> heap_typed env h ->
  extract_walk env h root = Ok st -> forall n t, tm_get (xtm st) n = Some t -> closed_at env st t.
Proof. exact extract_walk_closed. Qed.
Print Assumptions C16_walk_maps_closed.
Theorem C16_root_type_registered : forall env h a st ct, names_distinct env -> heap_typed env h ->
  extract_walk env h (Some a) = Ok st -> nty h a = Some ct -> reg env st ct.
Proof. exact extract_walk_root. Qed.
(* hence everything statically reachable from a registered type - through pointers, lists, maps
   and struct fields, to any depth - is registered; an interface type ends the static structure *)
Theorem C16_transitively_closed : forall env h root st, names_distinct env -> heap_typed env h ->
  extract_walk env h root = Ok st -> forall t u, registered env st t -> sreach env t u -> registered env st u.
Proof. exact extract_walk_transitively_closed. Qed.
Print Assumptions C16_transitively_closed.

(* ---- the hypotheses are satisfiable: a self-referential type and a cyclic value of it ---- *)
(* N struct { Next *N; Kids []*N };  n := &N{}; n.Next = n; n.Kids = []*N{n} *)
Definition ex_env : tyenv :=
  [ {| tname := [78%Z]; tshort := [78%Z]; tkd := KStruct [(true, 1%nat); (true, 2%nat)]; tcodec := Some [99; 46; 78]%Z |};
    {| tname := [42; 78]%Z; tshort := []; tkd := KPtr 0; tcodec := None |};
    {| tname := [91; 93; 42; 78]%Z; tshort := []; tkd := KSlice 1; tcodec := None |} ].
Definition ex_heap : xheap :=
  [ {| xty := 1; xbd := XPtr 1 |}; {| xty := 0; xbd := XStruct [2; 3]%nat |}; {| xty := 1; xbd := XPtr 1 |};
    {| xty := 2; xbd := XList [4%nat] |}; {| xty := 1; xbd := XPtr 1 |} ].
Example C16_nonvacuous :
  names_distinct ex_env /\ heap_typed ex_env ex_heap /\ heap_closed ex_heap /\ ptr_ground ex_env /\
  exists st, extract [] ex_env ex_heap (Some 0%nat) = Ok st /\
    tm_get (xtm st) [78%Z] = Some 0%nat /\ tm_get (xtm st) [99; 46; 78]%Z = Some 0%nat /\
    nm_lookup (xnm st) [78%Z] = Some [99; 46; 78]%Z /\ tm_get (xtm st) [91; 93; 42; 78]%Z = Some 2%nat.
Proof.
  split; [|split; [|split; [|split]]].
  - intros i j di dj n Hi Hj Ii Ij.
    assert (Bi : i < 3) by (apply (proj1 (nth_error_Some ex_env i)); congruence).
    assert (Bj : j < 3) by (apply (proj1 (nth_error_Some ex_env j)); congruence).
    destruct i as [|[|[|i]]]; [| | |exfalso; lia]; (destruct j as [|[|[|j]]]; [| | |exfalso; lia]); try reflexivity;
      cbn in Hi, Hj; inversion Hi; inversion Hj; subst; cbn in Ii, Ij; intuition (subst; discriminate).
  - intros a n H. assert (Ba : a < 5) by (apply (proj1 (nth_error_Some ex_heap a)); congruence).
    destruct a as [|[|[|[|[|a]]]]]; [| | | | |exfalso; lia]; cbn in H; inversion H; subst; unfold node_typed; cbn.
    + reflexivity.
    + repeat constructor.
    + reflexivity.
    + intros x [<-|[]]; reflexivity.
    + reflexivity.
  - intros a n H b I. assert (Ba : a < 5) by (apply (proj1 (nth_error_Some ex_heap a)); congruence).
    destruct a as [|[|[|[|[|a]]]]]; [| | | | |exfalso; lia]; cbn in H; inversion H; subst; cbn in I; cbn; intuition (subst; lia).
  - intros t. destruct t as [|[|[|t]]]; [vm_compute; discriminate| vm_compute; discriminate| vm_compute; discriminate|].
    cbn. destruct t; cbn; discriminate.
  - eexists. split; [vm_compute; reflexivity|]. repeat split; vm_compute; reflexivity.
Qed.
