(* C03: the decoder accepts every legal Hessian 2.0 encoding of a value, not only its own.
   The reference parser (Spec/Grammar.v) is written from the grammar, not from the code; the
   decoders are the hand models of Model/Scalars.v and Model/Strings.v over predicates and
   constants regenerated from the source; the structural part (lists, maps, objects, class
   definitions, references) is covered by the decoder model (Model/Decoder.v) through the
   correspondence run over certified renderings - no theorem yet. *)
From Coq Require Import ZArith List.
From GH Require Import Base.GoSem Base.Result Base.FloatBits Base.TimeSem Gen.GoLeaf Model.Scalars Model.Strings Spec.Grammar Proofs.DecSpec.
Import ListNotations.
Open Scope Z_scope.

(* all 256 tags: the branch ReadData takes (the source's own predicates, in the order the code
   tests them) is the production the grammar assigns to the tag *)
Theorem C03_tag_dispatch_agrees : forall t, 0 <= t < 256 -> go_cls t = spec_cls t.
Proof. exact tag_dispatch_agrees. Qed.
Print Assumptions C03_tag_dispatch_agrees.

(* compact or full-width integers, longs and doubles: every form the grammar defines *)
Theorem C03_int_forms : forall t r v r', 0 <= t < 256 -> bytes_ok r -> parse_int t r = Ok (v, r') -> decode_int_tag t r = Ok (v, r').
Proof. exact decode_int_follows_spec. Qed.
Print Assumptions C03_int_forms.
Theorem C03_long_forms : forall t r v r', 0 <= t < 256 -> bytes_ok r -> parse_long t r = Ok (v, r') -> decode_long_tag t r = Ok (v, r').
Proof. exact decode_long_follows_spec. Qed.
Print Assumptions C03_long_forms.
Theorem C03_double_forms : forall t r v r', bytes_ok r -> parse_double t r = Ok (v, r') -> decode_double_tag t r = Ok (v, r').
Proof. exact decode_double_follows_spec. Qed.
Print Assumptions C03_double_forms.

(* any split of a string or byte array into chunks (no bound on their number or sizes; growing
   chunks, empty chunks, every final length form) *)
Theorem C03_string_any_chunking : forall fuel t r rs r', parse_string fuel t r = Ok (rs, r') -> decode_string_tag t r = Ok (rs, r').
Proof. exact decode_string_follows_spec. Qed.
Print Assumptions C03_string_any_chunking.
Theorem C03_binary_any_chunking : forall fuel t r bs r', parse_binary fuel t r = Ok (bs, r') -> decode_binary_tag t r = Ok (bs, r').
Proof. exact decode_binary_follows_spec. Qed.
Print Assumptions C03_binary_any_chunking.

(* dates: the millisecond form is read as the grammar defines it *)
Theorem C03_date_ms_form : forall r ms r', bytes_ok r -> parse_date 74 r = Ok (ms, r') ->
  exists sec nsec, decode_date_tag 74 r = Ok ((sec, nsec), r') /\ sec * 1000 + nsec / 1000000 = ms /\ 0 <= nsec < 1000000000 /\ nsec mod 1000000 = 0.
Proof. exact decode_date_ms_follows_spec. Qed.
Print Assumptions C03_date_ms_form.

(* the full statement for dates is FALSE of the faithful model: the compact form x4b is read as
   seconds where the grammar defines minutes (known finding C03-F1); witness: the bytes of the
   specification's compact example, x4b x4b x92 x0b xa0 (whose own comment, "09:51:00 May 8, 1998",
   fits neither reading): 0x4b920ba0 minutes under the grammar, 0x4b920ba0 seconds for the decoder *)
Theorem C03_date_compact_refuted_F1 :
  parse_date 75 [75; 146; 11; 160] = Ok (76071745920000, []) /\
  decode_date_tag 75 [75; 146; 11; 160] = Ok ((1267862432, 0), []).
Proof. split; vm_compute; reflexivity. Qed.
Print Assumptions C03_date_compact_refuted_F1.

Example C03_nonvacuous :
  parse_string 5 82 [0; 1; 97; 83; 0; 5; 104; 101; 108; 108; 111] = Ok ([97; 104; 101; 108; 108; 111], []) /\
  parse_int 212 [1; 44] = Ok (300, []).
Proof. split; vm_compute; reflexivity. Qed.
