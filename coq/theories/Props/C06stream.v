(* C06 for streams of object graphs: n values written one after the other with ONE encoder
   (class definitions and reference ordinals persisting from value to value, as
   Serializer.Write / Encoder.WriteObject do) and read one after the other with ONE decoder come
   back as the same n values in the same order, each read consuming exactly the bytes of its
   value (the k-th read starts where the (k-1)-th stopped; `rest` is returned untouched), with
   later values free to reuse class definitions and to refer back to objects of earlier values.
   For every n, every graph shape (sharing and cycles within and ACROSS values included).
   Values: object graphs as in Props/C01graph.v (relation sgv). *)
From Coq Require Import ZArith List Lia.
From GH Require Import Base.GoSem Base.Result Base.Utf8 Gen.GoLeaf Model.Scalars Model.Strings Spec.Grammar
  Model.Encoder Model.Decoder Proofs.EncoderFacts Proofs.EncSpec Proofs.RoundTrip.
Import ListNotations.
Open Scope Z_scope.

Theorem C06_stream_roundtrip : forall nm F te tm ty_of vs st st', Forall (top_ok nm F te tm ty_of) vs ->
  enm st = nm -> cls_ok F (ecls st) -> write_items vs st = Ok st' ->
  cls_ok F (ecls st') /\ enm st' = enm st /\ grows st st' /\
  exists bs ds cells, ebytes st' = ebytes st ++ bs /\ dgs te ty_of (erefs st) vs ds cells (erefs st') /\
    (small st' -> forall dst rest, Inv ty_of st dst ->
       exists dst', Inv ty_of st' dst' /\ dheap dst' = dheap dst ++ cells /\
       forall f, (need_ditems vs <= f)%nat -> read_n te tm f (length vs) dst (bs ++ rest) = Ok (ds, rest, dst')).
Proof. exact stream_roundtrip. Qed.
Print Assumptions C06_stream_roundtrip.

(* two values on one stream, the second pointing back into the first: n1 = &N{7,"hi",nil}; then
   &N{8,"",n1} - the second message carries no class definition and a reference to ordinal 0 *)
Example C06_stream_nonvacuous :
  let xN : name := [78] in
  let nm : namemap := [(xN, xN)] in
  let gfs := [([86], TInt KInt32); ([83], TStr); ([78; 101; 120; 116], TPtr (TStruct xN))] in
  let te : tenv := [(xN, gfs)] in let tm : typmap := [(xN, TStruct xN)] in
  let v1 := VStruct 1 xN [([86], VInt KInt32 7); ([83], VStr [104; 105]); ([78; 101; 120; 116], VNil)] in
  let v2 := VStruct 2 xN [([86], VInt KInt32 8); ([83], VStr []); ([78; 101; 120; 116], VSeen RStruct 1)] in
  exists st', write_items [v1; v2] (estate0 nm) = Ok st' /\
    exists dst', read_n te tm 40 2 dstate0 (ebytes st') = Ok ([DPtr 0 xN; DPtr 1 xN], [], dst') /\
      nth_error (dheap dst') 1 = Some (RObj xN (Some [([86], DInt KInt32 8); ([83], DStr []); ([78; 101; 120; 116], DPtr 0 xN)])).
Proof. cbv zeta. eexists. split; [vm_compute; reflexivity|]. eexists. split; vm_compute; reflexivity. Qed.
