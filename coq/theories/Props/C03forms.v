(* C03, container forms the encoder never writes.  The variable-length typed list
      x55 type value* 'Z'
   of ANY length, with elements of the object-graph fragment of Props/C01graph.v (scalars, strings,
   pointers to objects - also objects defined earlier in the stream or referred back to - nested
   lists, maps, structs by value), read at a struct field of type []e, decodes to the same list
   value and leaves the same heap as the fixed-length forms the encoder uses.  The element bytes
   are those the encoder model writes for the elements from a state in which the list has taken
   its reference ordinal, so that references inside the elements mean what they would mean in a
   message.  (Every other tag and every scalar / chunked form: Props/C03.v.  Object instances by
   'O' index for any index, definitions ahead of use: Props/C05.v.) *)
From Coq Require Import ZArith List Lia.
From GH Require Import Base.GoSem Base.Result Base.Utf8 Gen.GoLeaf Model.Scalars Model.Strings Spec.Grammar
  Model.Encoder Model.Decoder Proofs.EncoderFacts Proofs.EncSpec Proofs.RoundTrip.
Import ListNotations.
Open Scope Z_scope.

Theorem C03_list_variable_typed_form : forall nm F te tm ty_of ty l e ltn st st',
  nm_lookup nm ty = Some ltn -> tm_lookup tm ltn = Some (TSlice e) -> Forall valid_rune ltn -> e <> TIface ->
  Forall (sgv nm F te tm ty_of e) l -> Forall (elem_pos_ok nm) l -> enm st = nm -> cls_ok F (ecls st) ->
  write_items l {| ecls := ecls st; erefs := erefs st ++ [(0, RSlice)]; enm := enm st; eout := [] |} = Ok st' ->
  exists ds cells, dgs te ty_of (erefs st ++ [(0, RSlice)]) l ds cells (erefs st') /\
    (small st' -> forall dst rest, Inv ty_of st dst ->
       exists dst', Inv ty_of st' dst' /\ dheap dst' = dheap dst ++ RList (Some (DSlice e ds)) :: cells /\
       forall f, (4 + need_ditems l <= f)%nat ->
         R_rf (readers_at te tm f) (TSlice e) dst ((85 :: encode_string ltn ++ ebytes st' ++ [90]) ++ rest) = Ok (DSlice e ds, rest, dst')).
Proof. exact list_variable_typed_form. Qed.
Print Assumptions C03_list_variable_typed_form.

(* [3, 4] as  x55 "[int" x93 x94 'Z'  at a field of type []int32 *)
Example C03_variable_list_nonvacuous :
  let ty : name := [91; 93; 105; 110; 116; 51; 50] in let ltn : name := [91; 105; 110; 116] in
  let nm : namemap := [(ty, ltn)] in let tm : typmap := [(ltn, TSlice (TInt KInt32))] in
  exists r dst', R_rf (readers_at [] tm 10) (TSlice (TInt KInt32)) dstate0 (85 :: encode_string ltn ++ [147; 148] ++ [90; 7]) = Ok (DSlice (TInt KInt32) [DInt KInt32 3; DInt KInt32 4], r, dst') /\ r = [7].
Proof. cbv zeta. eexists; eexists. split; vm_compute; reflexivity. Qed.
