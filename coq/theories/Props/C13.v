(* C13: encoding is fail-stop: an unrepresentable value yields an error, never bad bytes.
   write_data is the hand model of WriteData/writeObject/writeList/writeMap (Model/Encoder.v),
   validated byte for byte against the implementation by the correspondence run. *)
From Coq Require Import ZArith List.
From GH Require Import Base.Result Model.Scalars Spec.Grammar Model.Encoder Proofs.EncoderFacts.
Import ListNotations.

(* an unsupported kind (chan, func, complex, uintptr, unsafe.Pointer) or an unexported field at
   ANY depth and position (struct field, list element, map key, map value, nested) of a value
   without sharing: the encode call returns an error - never success, never a panic *)
Theorem C13_bad_kind_errors : forall v, addr_free v = true -> contains_bad v = true ->
  forall st, is_err (write_data v st).
Proof. exact bad_kind_errors. Qed.
Print Assumptions C13_bad_kind_errors.

Theorem C13_bad_kind_encode_errors : forall nm v, addr_free v = true -> contains_bad v = true -> is_err (encode nm v).
Proof. exact bad_kind_encode_errors. Qed.
Print Assumptions C13_bad_kind_encode_errors.

(* and no value without sharing makes the encoder panic *)
Theorem C13_never_panics : forall v, addr_free v = true -> forall st, ok_or_err (write_data v st).
Proof. exact addr_free_ok_or_err. Qed.
Print Assumptions C13_never_panics.

Example C13_nonvacuous :
  let v := VStruct 0 [79%Z] [([65%Z], VInt KInt32 1); ([66%Z], VSlice 0 [91%Z] [VStr [104%Z]; VMap 0 [] [(VStr [107%Z], VBad)]])] in
  addr_free v = true /\ contains_bad v = true /\ encode [] v = Err ECodec.
Proof. exact bad_kind_nonvacuous. Qed.
