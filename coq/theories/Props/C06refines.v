(* C06 for streams of ANY values, relative to the reference grammar: n values that the grammar
   reads one after the other from a byte string - in any of their renderings, later values using
   class definitions and type names of earlier ones and referring back to their objects - are
   returned by n successive reads of ONE decoder (read_n = n calls of Decoder.ReadObject), each
   read yielding a meaning of its value (`sv`, Proofs/DecRefines.v) and stopping exactly where the
   next value starts; the bytes after the n-th value are handed back untouched.  Conversely n
   successful reads of regular values return meanings of exactly those values. *)
From Coq Require Import ZArith List Lia String Ascii.
From GH Require Import Base.GoSem Base.Result Base.Utf8 Gen.GoLeaf Model.Scalars Model.Strings Spec.Grammar
  Model.Encoder Model.Decoder Proofs.RoundTrip Proofs.DecRefines Proofs.DecRefinesConv Proofs.StreamRefines Props.C03refines.
Import ListNotations.
Open Scope Z_scope.

Theorem C06_stream_refines : forall te tm f0 f n st bs vs rest st' h items h',
  hparse_n f0 f n st bs = Ok (vs, rest, st') -> bytes_ok bs -> sn te tm TIface vs h items h' ->
  forall g, (2 * f <= g)%nat -> read_n te tm g n (dst_of st h) bs = Ok (items, rest, dst_of st' h').
Proof. exact stream_refines. Qed.
Print Assumptions C06_stream_refines.

Theorem C06_stream_success_is_meaning : forall te tm f0 f n st bs vs rest st' h g items rest2 dst2,
  hparse_n f0 f n st bs = Ok (vs, rest, st') -> bytes_ok bs -> Forall reg vs ->
  read_n te tm g n (dst_of st h) bs = Ok (items, rest2, dst2) ->
  exists h', sn te tm TIface vs h items h' /\ rest2 = rest /\ dst2 = dst_of st' h'.
Proof. exact stream_success_is_meaning. Qed.
Print Assumptions C06_stream_success_is_meaning.

(* two values on one stream: rendering B of Props/C03refines.v, then a back-reference to the
   object the first value registered as #1, then a byte that belongs to nobody *)
Example C06_stream_refines_nonvacuous : exists st',
  read_n teP tmP 200 2 dstate0 (bsB ++ [81; 145] ++ [7]) = Ok ([dP; DPtr 1 (cps "P")], [7], dst_of st' hP).
Proof.
  destruct C03_example_meaning as (d & h' & S & -> & ->).
  assert (P : exists st', hparse_n 100 100 2 pstate0 (bsB ++ [81; 145] ++ [7]) = Ok ([hvP; HRef 1], [7], st')) by (eexists; vm_compute; reflexivity).
  destruct P as (st' & P). exists st'.
  apply (C06_stream_refines teP tmP 100 100 2 pstate0 _ _ _ _ [] _ _ P).
  - apply bytes_okb_ok. vm_compute. reflexivity.
  - eapply sn_cons; [exact S|reflexivity|]. eapply sn_cons; [apply sv_ref; reflexivity|reflexivity|apply sn_nil].
  - lia.
Qed.
