(* C10: timestamps keep their instant at millisecond resolution over years 1..9999.
   An instant is (seconds since the epoch, nanoseconds in [0,1e9)); gencodeDate is translated
   from date.go by go2v on every run, decode_date is the hand model of decodeDateValue. *)
From Coq Require Import ZArith List.
From GH Require Import Base.GoSem Base.Result Base.TimeSem Gen.GoConsts Gen.GoLeaf Model.Scalars Proofs.DateProofs.
Import ListNotations.
Open Scope Z_scope.

Theorem C10_date_roundtrip_ms : forall sec nsec rest,
  year_ok sec -> 0 <= nsec < 1000000000 -> nsec mod 1000000 = 0 -> time_is_zero sec nsec = false ->
  decode_date (gencodeDate sec nsec ++ rest) = Ok ((sec, nsec), rest).
Proof. exact date_roundtrip_ms. Qed.
Print Assumptions C10_date_roundtrip_ms.

Theorem C10_date_within_ms : forall sec nsec rest,
  year_ok sec -> 0 <= nsec < 1000000000 -> time_is_zero sec nsec = false ->
  exists nsec', decode_date (gencodeDate sec nsec ++ rest) = Ok ((sec, nsec'), rest) /\ 0 <= nsec - nsec' < 1000000.
Proof. exact date_within_ms. Qed.
Print Assumptions C10_date_within_ms.

Theorem C10_zero_date_is_null : gencodeDate zero_time_sec 0 = [g_nilTag].
Proof. exact zero_date_is_null. Qed.
Print Assumptions C10_zero_date_is_null.

Example C10_nonvacuous :
  year_ok 2208988800 /\ time_is_zero 2208988800 0 = false /\ year_ok (-2) /\ time_is_zero (-2) 500000000 = false.
Proof. exact date_nonvacuous. Qed.
