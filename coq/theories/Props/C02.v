(* C02: encoder output is well-formed Hessian 2.0 and denotes the intended value.
   Scalar part: what each scalar encoder writes is, under the reference parser written from the
   grammar (Spec/Grammar.v), exactly that scalar, with nothing missing or left over.  The
   encoders are the go2v translations (int, long, double, date) and the hand models of
   encodeString/encodeBinary.  The structural part (class definitions, field names, list type
   names, counts, reference ordinals) is decided by the reference parser run on every emitted
   message and by the encoder model's correspondence; its theorem is in Props/C02struct.v. *)
From Coq Require Import ZArith List.
From GH Require Import Base.GoSem Base.Result Base.FloatBits Base.TimeSem Base.Utf8 Gen.GoLeaf Model.Scalars Model.Strings Spec.Grammar Proofs.SpecScalars.
Import ListNotations.
Open Scope Z_scope.

Theorem C02_int_denotes : forall v r, in_i32 v ->
  exists t tl, gencodeInt v = t :: tl /\ is_int_tag t = true /\ parse_int t (tl ++ r) = Ok (v, r).
Proof. exact int_denotes. Qed.
Print Assumptions C02_int_denotes.
Theorem C02_long_denotes : forall v r, in_i64 v ->
  exists t tl, gencodeLong v = t :: tl /\ is_int_tag t = false /\ is_long_tag t = true /\ parse_long t (tl ++ r) = Ok (v, r).
Proof. exact long_denotes. Qed.
Print Assumptions C02_long_denotes.
Theorem C02_double_denotes : forall b bs r, in_f64 b -> gencodeDouble b = Ok bs ->
  exists t tl d, bs = t :: tl /\ is_int_tag t = false /\ is_long_tag t = false /\ is_double_tag t = true /\
                 parse_double t (tl ++ r) = Ok (d, r) /\ feq d b = true.
Proof. exact double_denotes. Qed.
Print Assumptions C02_double_denotes.
Theorem C02_string_denotes : forall rs rest, Forall valid_rune rs ->
  exists t tl, encode_string rs = t :: tl /\ is_string_tag t = true /\
    forall fuel, (length rs < fuel)%nat -> parse_string fuel t (tl ++ rest) = Ok (rs, rest).
Proof. exact string_denotes. Qed.
Print Assumptions C02_string_denotes.
Theorem C02_binary_denotes : forall bs rest,
  exists t tl, encode_binary bs = t :: tl /\ is_binary_tag t = true /\
    forall fuel, (length bs < fuel)%nat -> parse_binary fuel t (tl ++ rest) = Ok (bs, rest).
Proof. exact binary_denotes. Qed.
Print Assumptions C02_binary_denotes.

(* dates: in the millisecond form the instant; in the compact form the implementation writes
   SECONDS where the grammar defines MINUTES (known finding C02-F1): the statement records what
   a peer reads *)
Theorem C02_date_denotes : forall sec nsec r,
  year_ok sec -> 0 <= nsec < 1000000000 -> time_is_zero sec nsec = false ->
  exists t tl, gencodeDate sec nsec = t :: tl /\ is_date_tag t = true /\
    parse_date t (tl ++ r) = Ok ((if date_compact sec nsec then sec * 60000 else date_ms sec nsec), r).
Proof. exact date_denotes. Qed.
Print Assumptions C02_date_denotes.
Theorem C02_date_compact_refuted_F1 : exists sec, year_ok sec /\ date_compact sec 0 = true /\ sec * 60000 <> date_ms sec 0.
Proof. exact date_compact_refuted. Qed.
Print Assumptions C02_date_compact_refuted_F1.
