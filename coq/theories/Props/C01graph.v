(* C01 and C04 for object graphs.  For EVERY graph of structs whose fields are integers of any
   Go kind, booleans, strings, float64s, byte slices, timestamps, pointers to structs, typed
   lists of any of these (lists of lists, lists of pointers included), maps with string or
   integer keys and any of these as values, and structs held by value (struct-typed fields,
   []T, map[K]T) - any number of objects, any depth, with arbitrary
   sharing of objects and cycles - what the encoder model
   writes, the decoder model reads back as the same graph: every object becomes one heap cell
   holding the same values under the same field names (a float64 as the same number, a
   timestamp to the millisecond), and every pointer becomes the index of the cell of the object
   it pointed to, so that two pointers are equal after decoding exactly when they were before.

   Both models are tied to /repo on every run (encoder byte for byte, decoder value for value,
   on the zoo and on every small pointer graph).  Hypotheses (relation sgv): each struct type has
   a wire name in the name map which the type map maps back to it (what C16 establishes for
   extracted maps), field names are distinct and findable under the first-letter rule, strings
   are valid UTF-8, integers fit their kind, counts fit an int32, fewer than 2^31 objects. *)
From Coq Require Import ZArith List Lia.
From GH Require Import Base.GoSem Base.Result Base.Utf8 Gen.GoLeaf Model.Scalars Model.Strings Spec.Grammar
  Model.Encoder Model.Decoder Proofs.EncSpec Proofs.RoundTrip.
Import ListNotations.
Open Scope Z_scope.

(* at any position of any message or stream: from ANY consistent encoder state and ANY decoder
   state in step with it (same class table, one heap cell of the right type per registered
   object - filled or still under construction), followed by ANY bytes *)
Theorem C01_graph_roundtrip : forall nm F te tm ty_of v t st st',
  enm st = nm -> sgv nm F te tm ty_of t v -> cls_ok F (ecls st) -> write_data v st = Ok st' ->
  cls_ok F (ecls st') /\ enm st' = enm st /\ grows st st' /\
  exists bs d cells, ebytes st' = ebytes st ++ bs /\ (1 <= length bs)%nat /\ dg te ty_of (erefs st) v d cells (erefs st') /\
    (small st' -> forall dst rest, Inv ty_of st dst ->
       exists dst', Inv ty_of st' dst' /\ dheap dst' = dheap dst ++ cells /\
       forall f, (need_d v <= f)%nat ->
         (* as a struct field of Go type t *)
         R_rf (readers_at te tm f) t dst (bs ++ rest) = Ok (d, rest, dst') /\
         (* as a value on its own (top level, stream) *)
         (forall a ty fs, v = VStruct a ty fs -> a <> 0 -> R_rd (readers_at te tm f) dst (bs ++ rest) = Ok (d, rest, dst')) /\
         (* as a list element or map key/value of static type t: ReadData, then SetValue into t *)
         (t <> TIface -> elem_pos_ok nm v ->
            exists d0, R_rd (readers_at te tm f) dst (bs ++ rest) = Ok (d0, rest, dst') /\ set_value te (dheap dst') t d0 = Ok d)).
Proof. intros nm F te tm ty_of v. exact (graph_roundtrip nm F te tm ty_of v). Qed.
Print Assumptions C01_graph_roundtrip.

(* a whole message: encode from fresh tables, decode from fresh tables *)
Theorem C01_graph_message_roundtrip : forall nm F te tm ty_of a ty fs st',
  sgv nm F te tm ty_of (TPtr (TStruct ty)) (VStruct a ty fs) -> write_data (VStruct a ty fs) (estate0 nm) = Ok st' -> small st' ->
  exists gfs ds cells, te_lookup te ty = Some gfs /\ length ds = length fs /\ dgs te ty_of [(a, RStruct)] (map snd fs) ds cells (erefs st') /\
    forall f, (need_d (VStruct a ty fs) <= f)%nat ->
      exists dst', R_rd (readers_at te tm f) dstate0 (ebytes st') = Ok (DPtr 0 ty, [], dst') /\
                   dheap dst' = RObj ty (Some (assoc_all (zeros_of te gfs) (bind_known gfs (map fst fs) ds))) :: cells.
Proof. exact graph_message_roundtrip. Qed.
Print Assumptions C01_graph_message_roundtrip.

(* ToObject(ToBytes(v)), with the fuel the decoder model gives itself for an input of that length *)
Theorem C01_decode_encode : forall nm F te tm ty_of a ty fs st',
  sgv nm F te tm ty_of (TPtr (TStruct ty)) (VStruct a ty fs) -> write_data (VStruct a ty fs) (estate0 nm) = Ok st' -> small st' ->
  (need_d (VStruct a ty fs) <= decode_fuel (ebytes st'))%nat ->
  exists gfs ds cells dst', te_lookup te ty = Some gfs /\ length ds = length fs /\ dgs te ty_of [(a, RStruct)] (map snd fs) ds cells (erefs st') /\
    decode te tm (ebytes st') = Ok (DPtr 0 ty, [], dst') /\
    dheap dst' = RObj ty (Some (assoc_all (zeros_of te gfs) (bind_known gfs (map fst fs) ds))) :: cells.
Proof. exact graph_decode_encode. Qed.
Print Assumptions C01_decode_encode.
(* when the value lists exactly the fields of its Go type - what the encoder writes for a Go value -
   every field holds its own decoded value *)
Theorem C01_exact_fields : forall te gfs ds, fields_findable gfs -> length ds = length gfs ->
  assoc_all (zeros_of te gfs) (bind_known gfs (map fst gfs) ds) = combine (map fst gfs) ds.
Proof. exact (exact_fields (fun _ => [])). Qed.

(* C04: the pointer decoded at a position holding (a pointer to) the object at address a is the
   ordinal of a - also in the table at the end of the message - and ordinals identify addresses:
   two decoded pointers are equal exactly when the original pointers were *)
Theorem C04_decoded_pointer_is_ordinal : forall te ty_of refs v d cells refs' a, dg te ty_of refs v d cells refs' -> a <> 0 ->
  (v = VSeen RStruct a \/ exists ty fs, v = VStruct a ty fs) ->
  exists i ty, d = DPtr (Z.to_nat i) ty /\ forall more, ref_find (refs' ++ more) a RStruct 0 = Some i.
Proof. exact decoded_pointer_is_ordinal. Qed.
Theorem C04_ordinals_identify_addresses : forall refs a b i j,
  ref_find refs a RStruct 0 = Some i -> ref_find refs b RStruct 0 = Some j -> (i = j <-> a = b).
Proof. exact ordinals_identify_addresses. Qed.
Print Assumptions C04_decoded_pointer_is_ordinal.

(* the hypotheses are satisfiable: a two-object cycle  n1 = &N{7, "hi", n2}, n2 = &N{8, "", n1} *)
Definition xN : name := [78].
Definition xnm : namemap := [(xN, xN)].
Definition xgfs : list (name * gtype) := [([86], TInt KInt32); ([83], TStr); ([78; 101; 120; 116], TPtr (TStruct xN))].
Definition xte : tenv := [(xN, xgfs)].
Definition xtm : typmap := [(xN, TStruct xN)].
Definition xF (c : name) : list name := [[118]; [115]; [110; 101; 120; 116]].
Definition xty (a : Z) : name := xN.
Definition xn2 : gval := VStruct 2 xN [([86], VInt KInt32 8); ([83], VStr []); ([78; 101; 120; 116], VSeen RStruct 1)].
Definition xn1 : gval := VStruct 1 xN [([86], VInt KInt32 7); ([83], VStr [104; 105]); ([78; 101; 120; 116], xn2)].
Lemma xfindable : fields_findable xgfs.
Proof.
  split.
  - repeat constructor; cbn; intuition discriminate.
  - intros n t [H|[H|[H|[]]]]; inversion H; subst; reflexivity.
Qed.
Ltac known_fields := repeat (apply Forall_cons; [cbn [fst snd]; intros gn gt X; vm_compute in X; inversion X; subst; clear X|]); [..|apply Forall_nil].
Ltac no_unknown_fields := repeat (apply Forall_cons; [cbn [fst snd]; intros X; vm_compute in X; discriminate|]); apply Forall_nil.
Lemma xsgv2 : sgv xnm xF xte xtm xty (TPtr (TStruct xN)) xn2.
Proof.
  eapply (sg_struct xnm xF xte xtm xty 2 xN _ xN xgfs); try reflexivity; try lia.
  - repeat constructor; unfold valid_rune; lia.
  - repeat constructor; unfold valid_rune; lia.
  - cbn; lia.
  - known_fields; [constructor; unfold in_kind; cbn; lia|constructor; constructor|exact (sg_seen xnm xF xte xtm xty 1)].
  - no_unknown_fields.
Qed.
Example C01_graph_nonvacuous :
  sgv xnm xF xte xtm xty (TPtr (TStruct xN)) xn1 /\
  exists st', write_data xn1 (estate0 xnm) = Ok st' /\ small st' /\
    exists dst', decode xte xtm (ebytes st') = Ok (DPtr 0 xN, [], dst') /\
      dheap dst' = [RObj xN (Some [([86], DInt KInt32 7); ([83], DStr [104; 105]); ([78; 101; 120; 116], DPtr 1 xN)]);
                    RObj xN (Some [([86], DInt KInt32 8); ([83], DStr []); ([78; 101; 120; 116], DPtr 0 xN)])].
Proof.
  split.
  - eapply (sg_struct xnm xF xte xtm xty 1 xN _ xN xgfs); try reflexivity; try lia.
    + repeat constructor; unfold valid_rune; lia.
    + repeat constructor; unfold valid_rune; lia.
    + cbn; lia.
    + known_fields; [constructor; unfold in_kind; cbn; lia|constructor; repeat constructor; unfold valid_rune; lia|exact xsgv2].
    + no_unknown_fields.
  - eexists. split; [vm_compute; reflexivity|]. split; [split; vm_compute; discriminate|].
    eexists. split; vm_compute; reflexivity.
Qed.

(* ... and with a list field: &L{Vs: []int32{1, -2}} *)
Definition yL : name := [76].
Definition yty : name := [91; 93; 105; 110; 116; 51; 50].       (* "[]int32" *)
Definition yltn : name := [91; 105; 110; 116].                  (* "[int" *)
Definition ynm : namemap := [(yL, yL); (yty, yltn)].
Definition ygfs : list (name * gtype) := [([86; 115], TSlice (TInt KInt32))].
Definition yte : tenv := [(yL, ygfs)].
Definition ytm : typmap := [(yL, TStruct yL); (yltn, TSlice (TInt KInt32))].
Definition yF (c : name) : list name := [[118; 115]].
Definition yv : gval := VStruct 1 yL [([86; 115], VSlice 0 yty [VInt KInt32 1; VInt KInt32 (-2)])].
Example C01_graph_list_nonvacuous :
  sgv ynm yF yte ytm (fun _ => yL) (TPtr (TStruct yL)) yv /\
  exists st', write_data yv (estate0 ynm) = Ok st' /\ small st' /\
    exists dst', decode yte ytm (ebytes st') = Ok (DPtr 0 yL, [], dst') /\
      dheap dst' = [RObj yL (Some [([86; 115], DSlice (TInt KInt32) [DInt KInt32 1; DInt KInt32 (-2)])]);
                    RList (Some (DSlice (TInt KInt32) [DInt KInt32 1; DInt KInt32 (-2)]))].
Proof.
  split.
  - eapply (sg_struct ynm yF yte ytm (fun _ => yL) 1 yL _ yL ygfs); try reflexivity; try lia.
    + repeat constructor; unfold valid_rune; lia.
    + repeat constructor; unfold valid_rune; lia.
    + cbn; lia.
    + known_fields.
      eapply (sg_slice ynm yF yte ytm (fun _ => yL) yty _ (TInt KInt32) yltn); try reflexivity; try discriminate; try (cbn; lia).
      * repeat constructor; unfold valid_rune; lia.
      * repeat constructor; unfold in_kind; cbn; lia.
      * repeat constructor.
    + no_unknown_fields.
  - eexists. split; [vm_compute; reflexivity|]. split; [split; vm_compute; discriminate|].
    eexists. split; vm_compute; reflexivity.
Qed.

(* ... and with a map field: &M{Tags: map[string]int32{"a": 1, "b": 2}} (an unnamed map type: untyped on the wire) *)
Definition zM : name := [77].
Definition znm : namemap := [(zM, zM)].
Definition zgfs : list (name * gtype) := [([84], TMap TStr (TInt KInt32))].
Definition zte : tenv := [(zM, zgfs)].
Definition ztm : typmap := [(zM, TStruct zM)].
Definition zF (c : name) : list name := [[116]].
Definition zv : gval := VStruct 1 zM [([84], VMap 0 [] [(VStr [97], VInt KInt32 1); (VStr [98], VInt KInt32 2)])].
Example C01_graph_map_nonvacuous :
  sgv znm zF zte ztm (fun _ => zM) (TPtr (TStruct zM)) zv /\
  exists st', write_data zv (estate0 znm) = Ok st' /\ small st' /\
    exists dst', decode zte ztm (ebytes st') = Ok (DPtr 0 zM, [], dst') /\
      nth_error (dheap dst') 0 = Some (RObj zM (Some [([84], DMapV TStr (TInt KInt32) [(DStr [97], DInt KInt32 1); (DStr [98], DInt KInt32 2)])])).
Proof.
  split.
  - eapply (sg_struct znm zF zte ztm (fun _ => zM) 1 zM _ zM zgfs); try reflexivity; try lia.
    + repeat constructor; unfold valid_rune; lia.
    + repeat constructor; unfold valid_rune; lia.
    + cbn; lia.
    + known_fields.
      eapply (sg_map znm zF zte ztm (fun _ => zM) [] _ TStr (TInt KInt32)); try discriminate.
      * repeat constructor.
      * repeat constructor; cbn; intuition discriminate.
      * repeat constructor; try (unfold valid_rune; lia); try (unfold in_kind; cbn; lia).
    + no_unknown_fields.
  - eexists. split; [vm_compute; reflexivity|]. split; [split; vm_compute; discriminate|].
    eexists. split; vm_compute; reflexivity.
Qed.

(* ... and with structs held by value: &B{Items: []I{{1},{2}}} *)
Definition wB : name := [66].
Definition wI : name := [73].
Definition wty : name := [91; 93; 73].                         (* "[]I" *)
Definition wltn : name := [91; 73].                            (* "[I" *)
Definition wnm : namemap := [(wB, wB); (wI, wI); (wty, wltn)].
Definition wte : tenv := [(wB, [([76], TSlice (TStruct wI))]); (wI, [([86], TInt KInt32)])].
Definition wtm : typmap := [(wB, TStruct wB); (wI, TStruct wI); (wltn, TSlice (TStruct wI))].
Definition wF (c : name) : list name := if name_eqb c wB then [[108]] else [[118]].
Definition wv : gval := VStruct 1 wB [([76], VSlice 0 wty [VStruct 0 wI [([86], VInt KInt32 1)]; VStruct 0 wI [([86], VInt KInt32 2)]])].
Example C01_graph_byvalue_nonvacuous :
  sgv wnm wF wte wtm (fun _ => wB) (TPtr (TStruct wB)) wv /\
  exists st', write_data wv (estate0 wnm) = Ok st' /\ small st' /\
    exists dst', decode wte wtm (ebytes st') = Ok (DPtr 0 wB, [], dst') /\
      nth_error (dheap dst') 0 = Some (RObj wB (Some [([76], DSlice (TStruct wI) [DStructV wI [([86], DInt KInt32 1)]; DStructV wI [([86], DInt KInt32 2)]])])).
Proof.
  assert (SI : forall z, -100 <= z <= 100 -> sgv wnm wF wte wtm (fun _ => wB) (TStruct wI) (VStruct 0 wI [([86], VInt KInt32 z)])).
  { intros z Hz. eapply (sg_structv wnm wF wte wtm (fun _ => wB) wI _ wI); try reflexivity; try (cbn; lia).
    - repeat constructor; unfold valid_rune; lia.
    - repeat constructor; unfold valid_rune; lia.
    - known_fields. constructor. unfold in_kind; cbn; lia.
    - no_unknown_fields. }
  split.
  - eapply (sg_struct wnm wF wte wtm (fun _ => wB) 1 wB _ wB); try reflexivity; try lia.
    + repeat constructor; unfold valid_rune; lia.
    + repeat constructor; unfold valid_rune; lia.
    + cbn; lia.
    + known_fields.
      eapply (sg_slice wnm wF wte wtm (fun _ => wB) wty _ (TStruct wI) wltn); try reflexivity; try discriminate; try (cbn; lia).
      * repeat constructor; unfold valid_rune; lia.
      * constructor; [apply SI; lia|]. constructor; [apply SI; lia|constructor].
      * repeat constructor.
    + no_unknown_fields.
  - eexists. split; [vm_compute; reflexivity|]. split; [split; vm_compute; discriminate|].
    eexists. split; vm_compute; reflexivity.
Qed.
