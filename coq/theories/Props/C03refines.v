(* C03, containers: the decoder model refines the reference grammar.

   Whenever the reference parser `hparse` reads an abstract value hv from the front of a byte
   string - in ANY of the forms the grammar allows: compact or full-width numbers, any chunking of
   strings and byte arrays, the six list forms, typed or untyped maps, type names literal or by
   back-reference, instances in short or long form, class definitions in front of any value
   before first use - and hv has a meaning d under `sv` (Proofs/DecRefines.v: what ReadData /
   readField / ReadList / readMap / readObject make of an abstract value, stated on abstract
   values, type environment, type map and reference table only), the decoder model reads exactly
   d from those bytes, consumes exactly the bytes the parser consumed, and ends with the parser's
   tables.  So every rendering of a value decodes like every other, the encoder's own included
   (C03_renderings_decode_alike).

   Conversely (Proofs/DecRefinesConv.v), whenever the decoder model succeeds on a rendering of a
   regular value, what it returns IS a meaning of that value and it consumed exactly the
   rendering (C03_decode_success_is_meaning).  Hence, with no hypothesis about meanings: whatever
   decoding one rendering of a regular value yields, decoding any other rendering of it yields too
   (C03_decoding_depends_on_the_value_only) - the property itself, on the model.

   Timestamps are not in `sv` (compact form: known finding C03-F1; millisecond form:
   C03_date_ms_form).  Regular (`reg`): no timestamp anywhere in the value. *)
From Coq Require Import ZArith List Lia String Ascii.
From GH Require Import Base.GoSem Base.Result Base.Utf8 Gen.GoLeaf Model.Scalars Model.Strings Spec.Grammar
  Model.Encoder Model.Decoder Proofs.DecRefines Proofs.DecRefinesConv.
Import ListNotations.
Open Scope Z_scope.

Theorem C03_decoder_refines_grammar : forall te tm bs hv rest st' d h',
  hparse pstate0 bs = Ok (hv, rest, st') -> bytes_ok bs -> sv te tm hv [] d h' ->
  decode te tm bs = Ok (d, rest, dst_of st' h').
Proof. exact decoder_refines_grammar. Qed.
Print Assumptions C03_decoder_refines_grammar.

(* in the middle of a stream: any tables (types, classes, references) the two sides share *)
Theorem C03_refines_from_any_state : forall te tm f0 f st bs hv rest st' h d h',
  hparse_v f0 f st bs = Ok (hv, rest, st') -> bytes_ok bs -> sv te tm hv h d h' ->
  forall g, (2 * f <= g)%nat -> R_rd (readers_at te tm g) (dst_of st h) bs = Ok (d, rest, dst_of st' h').
Proof. exact refines_from_any_state. Qed.
Print Assumptions C03_refines_from_any_state.

(* at a struct field of Go type t *)
Theorem C03_field_refines_from_any_state : forall te tm f0 f st bs hv rest st' t h d h',
  hparse_v f0 f st bs = Ok (hv, rest, st') -> bytes_ok bs -> sf te tm t hv h d h' ->
  forall g, (2 * f <= g)%nat -> R_rf (readers_at te tm g) t (dst_of st h) bs = Ok (d, rest, dst_of st' h').
Proof. exact field_refines_from_any_state. Qed.
Print Assumptions C03_field_refines_from_any_state.

Theorem C03_renderings_decode_alike : forall te tm bs1 bs2 hv st1 st2 d h',
  hparse pstate0 bs1 = Ok (hv, [], st1) -> hparse pstate0 bs2 = Ok (hv, [], st2) ->
  bytes_ok bs1 -> bytes_ok bs2 -> sv te tm hv [] d h' ->
  decode te tm bs1 = Ok (d, [], dst_of st1 h') /\ decode te tm bs2 = Ok (d, [], dst_of st2 h').
Proof. exact renderings_decode_alike. Qed.
Print Assumptions C03_renderings_decode_alike.


Theorem C03_decode_success_is_meaning : forall te tm bs hv rest st' d rest2 dst2,
  hparse pstate0 bs = Ok (hv, rest, st') -> bytes_ok bs -> reg hv ->
  decode te tm bs = Ok (d, rest2, dst2) ->
  exists h', sv te tm hv [] d h' /\ rest2 = rest /\ dst2 = dst_of st' h'.
Proof. exact decode_success_is_meaning. Qed.
Print Assumptions C03_decode_success_is_meaning.

Theorem C03_success_is_meaning_from_any_state : forall te tm f0 f st bs hv rest st' h g d rest2 dst2,
  hparse_v f0 f st bs = Ok (hv, rest, st') -> bytes_ok bs -> reg hv ->
  R_rd (readers_at te tm g) (dst_of st h) bs = Ok (d, rest2, dst2) ->
  exists h', sv te tm hv h d h' /\ rest2 = rest /\ dst2 = dst_of st' h'.
Proof. exact success_is_meaning_from_any_state. Qed.
Print Assumptions C03_success_is_meaning_from_any_state.

Theorem C03_decoding_depends_on_the_value_only : forall te tm bs1 bs2 hv st1 st2 d r1 s1,
  hparse pstate0 bs1 = Ok (hv, [], st1) -> hparse pstate0 bs2 = Ok (hv, [], st2) ->
  bytes_ok bs1 -> bytes_ok bs2 -> reg hv ->
  decode te tm bs1 = Ok (d, r1, s1) ->
  r1 = [] /\ s1 = dst_of st1 (dheap s1) /\ decode te tm bs2 = Ok (d, [], dst_of st2 (dheap s1)).
Proof. exact renderings_decode_alike_iff. Qed.
Print Assumptions C03_decoding_depends_on_the_value_only.

(* ---- non-vacuity: two renderings of  [ &P{Name:"ab", Age:300, Tags:["x"], Next:nil}, []string{"y"} ]  ----
   A: x7a (fixed untyped list of 2); the class definition inside, in front of the instance; x60;
      "ab" short; 300 in two octets; x71 "[string" "x"; N; second list x71 with the type by reference
   B: the class definition hoisted in front of the list; x57 ... Z; 'O' x90; "ab" as two chunks
      R..S..; 300 as 'I' b3..b0; Tags as x55 'S'-form type name ... Z; N; second list as 'V' with
      the type name written out again and the count as an int *)
Fixpoint cps (s : string) : list Z := match s with EmptyString => [] | String a r => Z.of_nat (nat_of_ascii a) :: cps r end.
Definition sstr (s : string) : bytes := Z.of_nat (String.length s) :: cps s.
Definition defP : bytes := [67] ++ sstr "P" ++ [148] ++ sstr "Name" ++ sstr "Age" ++ sstr "Tags" ++ sstr "Next".
Definition bsA : bytes := [122] ++ defP ++ [96] ++ [2; 97; 98] ++ [201; 44] ++ ([113] ++ sstr "[string" ++ [1; 120]) ++ [78]
                          ++ [113; 144; 1; 121].
Definition bsB : bytes := defP ++ [87] ++ [79; 144] ++ [82;0;1;97; 83;0;1;98] ++ [73;0;0;1;44]
                          ++ ([85] ++ [83;0;7] ++ cps "[string" ++ [83;0;1;120] ++ [90]) ++ [78]
                          ++ ([86] ++ sstr "[string" ++ [145] ++ [1; 121]) ++ [90].
(* C: as A, with a class definition directly in front of the string and the integer field value
   (value ::= class-def value holds at every value position) *)
Definition defU : bytes := [67] ++ sstr "U" ++ [144].
Definition bsC : bytes := [122] ++ defP ++ [96] ++ defU ++ [2; 97; 98] ++ defU ++ defU ++ [201; 44] ++ ([113] ++ sstr "[string" ++ [1; 120]) ++ [78]
                          ++ [113; 144; 1; 121].
Definition teP : tenv := [(cps "P", [(cps "Name", TStr); (cps "Age", TInt KInt32); (cps "Tags", TSlice TStr); (cps "Next", TPtr (TStruct (cps "P")))])].
Definition tmP : typmap := [(cps "P", TStruct (cps "P")); (cps "[string", TSlice TStr)].
Definition hvP : hval :=
  HList None
    [HObject (cps "P")
       [(cps "Name", HString (cps "ab")); (cps "Age", HInt 300);
        (cps "Tags", HList (Some (cps "[string")) [HString (cps "x")]); (cps "Next", HNull)];
     HList (Some (cps "[string")) [HString (cps "y")]].
Definition dP : dval := DSlice TIface [DPtr 1 (cps "P"); DSlice TStr [DStr (cps "y")]].
Definition hP : heap :=
  [RList (Some dP);
   RObj (cps "P") (Some [(cps "Name", DStr (cps "ab")); (cps "Age", DInt KInt32 300);
                         (cps "Tags", DSlice TStr [DStr (cps "x")]); (cps "Next", DNil)]);
   RList (Some (DSlice TStr [DStr (cps "x")]));
   RList (Some (DSlice TStr [DStr (cps "y")]))].

Lemma bytes_okb_ok bs : bytes_okb bs = true -> bytes_ok bs.
Proof.
  unfold bytes_okb, bytes_ok. intros H. apply Forall_forall. intros x Hx.
  rewrite forallb_forall in H. specialize (H x Hx). lia.
Qed.
Lemma C03_example_meaning : exists d h', sv teP tmP hvP [] d h' /\ d = dP /\ h' = hP.
Proof.
  eexists; eexists. split; [|split; [vm_compute; reflexivity|]].
  unfold hvP. eapply sv_list, slist_untyped.
  eapply sn_cons.
  - eapply sv_obj, sobj_intro; [reflexivity|reflexivity|reflexivity|].
    eapply sfs_known; [reflexivity|apply sf_str|].
    eapply sfs_known; [reflexivity|apply sf_int; reflexivity|].
    eapply sfs_known; [reflexivity| |].
    { eapply sf_slice; [exact I| |].
      - eapply sl_list, slist_typed; [reflexivity|]. eapply sn_cons; [apply sv_string|reflexivity|apply sn_nil].
      - reflexivity. }
    eapply sfs_known; [reflexivity| |apply sfs_nil].
    eapply sf_struct; [exact I|apply ss_null|reflexivity].
  - reflexivity.
  - eapply sn_cons; [|reflexivity|apply sn_nil].
    eapply sv_list, slist_typed; [reflexivity|]. eapply sn_cons; [apply sv_string|reflexivity|apply sn_nil].
  - vm_compute; reflexivity.
Qed.
Example C03_refines_nonvacuous : exists stA stB stC,
  hparse pstate0 bsA = Ok (hvP, [], stA) /\ hparse pstate0 bsB = Ok (hvP, [], stB) /\ hparse pstate0 bsC = Ok (hvP, [], stC) /\
  bsA <> bsB /\ sv teP tmP hvP [] dP hP /\
  decode teP tmP bsA = Ok (dP, [], dst_of stA hP) /\ decode teP tmP bsB = Ok (dP, [], dst_of stB hP) /\
  decode teP tmP bsC = Ok (dP, [], dst_of stC hP).
Proof.
  destruct C03_example_meaning as (d & h' & S & -> & ->).
  eexists; eexists; eexists.
  split; [vm_compute; reflexivity|]. split; [vm_compute; reflexivity|]. split; [vm_compute; reflexivity|]. split; [vm_compute; discriminate|].
  split; [exact S|].
  assert (AB := C03_renderings_decode_alike teP tmP bsA bsB hvP).
  assert (AC := C03_renderings_decode_alike teP tmP bsA bsC hvP).
  split; [|split].
  - eapply AB; try (vm_compute; reflexivity); try (apply bytes_okb_ok; vm_compute; reflexivity). exact S.
  - eapply AB; try (vm_compute; reflexivity); try (apply bytes_okb_ok; vm_compute; reflexivity). exact S.
  - eapply AC; try (vm_compute; reflexivity); try (apply bytes_okb_ok; vm_compute; reflexivity). exact S.
Qed.

(* the same three renderings through the hypothesis-free statement: decode A by computation,
   conclude for B and C *)
Example C03_value_only_nonvacuous : exists stB stC h',
  reg hvP /\ decode teP tmP bsB = Ok (dP, [], dst_of stB h') /\ decode teP tmP bsC = Ok (dP, [], dst_of stC h').
Proof.
  assert (R : reg hvP) by (unfold hvP; repeat (constructor; cbn [snd])).
  assert (DA : exists stA, hparse pstate0 bsA = Ok (hvP, [], stA) /\ decode teP tmP bsA = Ok (dP, [], dst_of stA hP))
    by (eexists; split; vm_compute; reflexivity).
  destruct DA as (stA & PA & DA).
  assert (PB : exists stB, hparse pstate0 bsB = Ok (hvP, [], stB)) by (eexists; vm_compute; reflexivity).
  assert (PC : exists stC, hparse pstate0 bsC = Ok (hvP, [], stC)) by (eexists; vm_compute; reflexivity).
  destruct PB as (stB & PB). destruct PC as (stC & PC).
  exists stB, stC, hP. split; [exact R|]. split.
  - refine (proj2 (proj2 (C03_decoding_depends_on_the_value_only teP tmP bsA bsB _ _ _ _ _ _ PA PB _ _ R DA))); apply bytes_okb_ok; vm_compute; reflexivity.
  - refine (proj2 (proj2 (C03_decoding_depends_on_the_value_only teP tmP bsA bsC _ _ _ _ _ _ PA PC _ _ R DA))); apply bytes_okb_ok; vm_compute; reflexivity.
Qed.

(* the specification's own example  x57 x90 x91 'Z'  (a variable-length untyped list [0, 1]) *)
Lemma C03_spec_example_meaning : exists d h', sv [] [] (HList None [HInt 0; HInt 1]) [] d h' /\
  d = DSlice TIface [DInt KInt32 0; DInt KInt32 1] /\ h' = [RList (Some d)].
Proof.
  eexists; eexists. split; [|split; [vm_compute; reflexivity|]].
  - eapply sv_list, slist_untyped.
    eapply sn_cons; [apply sv_int|reflexivity|]. eapply sn_cons; [apply sv_int|reflexivity|apply sn_nil].
  - vm_compute; reflexivity.
Qed.
Example C03_spec_example_variable_list :
  decode [] [] [87; 144; 145; 90] =
  Ok (DSlice TIface [DInt KInt32 0; DInt KInt32 1], [],
      dst_of {| ptypes := []; pclasses := []; popen := 1 |} [RList (Some (DSlice TIface [DInt KInt32 0; DInt KInt32 1]))]).
Proof.
  destruct C03_spec_example_meaning as (d & h' & S & -> & ->).
  apply (C03_decoder_refines_grammar [] [] [87; 144; 145; 90] (HList None [HInt 0; HInt 1])).
  - vm_compute; reflexivity.
  - apply bytes_okb_ok; vm_compute; reflexivity.
  - exact S.
Qed.
