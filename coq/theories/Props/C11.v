(* C11: a reused serializer behaves exactly like a fresh one; calls have no side effects.
   Encoder side, on the encoder model (Model/Encoder.v, Model/Session.v); the decoder side is
   covered by the regenerated source facts (Props/C11facts.v) and the history oracle. *)
From Coq Require Import ZArith List.
From GH Require Import Base.Result Model.Scalars Spec.Grammar Model.Encoder Model.Session Proofs.SessionProofs.
Import ListNotations.

(* over ALL histories (any length; one-shot and streaming calls, successful or failed, Reset)
   whose values the caller's name map is complete for: the next one-shot encode gives exactly
   the outcome (bytes or error) of a freshly constructed instance *)
Theorem C11_reuse_is_fresh : forall nm h v,
  forallb (op_complete nm) h = true ->
  snd (estep (erun h (estate0 nm)) (OEncode v)) = snd (estep (estate0 nm) (OEncode v)).
Proof. exact reuse_is_fresh. Qed.
Print Assumptions C11_reuse_is_fresh.

(* a complete caller-supplied name map is not modified by an encode call *)
Theorem C11_complete_maps_unchanged : forall v st st',
  nm_complete (enm st) v = true -> write_data v st = Ok st' -> enm st' = enm st.
Proof. exact complete_maps_unchanged. Qed.
Print Assumptions C11_complete_maps_unchanged.

Theorem C11_history_keeps_map : forall nm h st, enm st = nm -> forallb (op_complete nm) h = true -> enm (erun h st) = nm.
Proof. exact erun_enm. Qed.
Print Assumptions C11_history_keeps_map.

Example C11_nonvacuous :
  let nm := [([73%Z], [73%Z])] in
  let h := [OEncode (VStruct 1 [73%Z] [([65%Z], VInt KInt32 5)]); OWrite (VSlice 2 [91%Z] [VBad]); OWrite (VStruct 1 [73%Z] [([65%Z], VInt KInt32 5)]); OReset] in
  forallb (op_complete nm) h = true /\ ecls (erun [OWrite (VStruct 1 [73%Z] [([65%Z], VInt KInt32 5)])] (estate0 nm)) <> [].
Proof. exact reuse_nonvacuous. Qed.
