(* C02, structural part: for EVERY value (no bound on size, nesting or sharing) whatever the encoder
   model writes - objects with their class definitions, typed and untyped lists, typed and
   untyped maps, back-references to containers already written - is accepted by the reference
   parser written from the grammar (Spec/Grammar.v), consumes exactly the bytes written, and parses
   to a value that denotes the original in the sense of the relation `den` (Proofs/EncSpec.v):
   an object carries its wire class name and the lowered field names of its definition, a list
   its wire type name, and a container met again is a reference to the ordinal it was given.

   Hypotheses, all decidable side conditions on the value: the name map is complete for the value
   (the README idiom: maps extracted from the value), strings are valid UTF-8, list lengths and
   field counts fit an int32, every class name is used with one field list (F), timestamps do
   not take the compact form (which is REFUTED against the grammar: C02-F1 in Props/C02.v), and
   the encoder registered fewer than 2^31 containers and classes. *)
From Coq Require Import ZArith List Lia.
From GH Require Import Base.GoSem Base.Result Base.FloatBits Base.TimeSem Base.Utf8 Gen.GoLeaf Model.Scalars Model.Strings
  Spec.Grammar Model.Encoder Model.Session Proofs.EncSpec.
Import ListNotations.
Open Scope Z_scope.

(* at any stage of a message or stream: from ANY encoder state whose class table is consistent,
   with ANY reference-parser state that agrees with it on the class table and the number of
   containers, followed by ANY bytes *)
Theorem C02_enc_parses_from_any_state : forall nm F f0 v st st',
  enm st = nm -> nm_complete nm v = true -> wfv nm F f0 v -> cls_ok F (ecls st) -> write_data v st = Ok st' ->
  cls_ok F (ecls st') /\ grows st st' /\
  exists bs h, ebytes st' = ebytes st ++ bs /\ (exists t tl, bs = t :: tl /\ t <> 90) /\
    den nm F (erefs st) v h (erefs st') /\
    (small st' -> forall pst rest, Rst st pst ->
      exists pst', Rst st' pst' /\ forall f, (need v <= f)%nat -> hparse_v f0 f pst (bs ++ rest) = Ok (h, rest, pst')).
Proof. exact enc_parses. Qed.
Print Assumptions C02_enc_parses_from_any_state.

(* a whole message, with the fuel the reference parser gives itself *)
Theorem C02_encode_parses : forall nm F v st',
  write_data v (estate0 nm) = Ok st' -> small st' -> nm_complete nm v = true ->
  wfv nm F (S (length (ebytes st'))) v -> (need v <= S (S (length (ebytes st'))))%nat ->
  exists h, hparse_all (ebytes st') = Ok h /\ den nm F [] v h (erefs st').
Proof. exact encode_hparse_all. Qed.
Print Assumptions C02_encode_parses.

(* the hypotheses are satisfiable: P{A: 5, N: <the value itself>} *)
Example C02_structural_nonvacuous :
  let nm := [([80], [80])] in
  let F := fun c : name => if name_eqb c [80] then [[97]; [110]] else [] in
  let v := VStruct 1 [80] [([65], VInt KInt32 5); ([78], VSeen RStruct 1)] in
  exists st', write_data v (estate0 nm) = Ok st' /\ small st' /\ nm_complete nm v = true /\
    wfv nm F (S (length (ebytes st'))) v /\ (need v <= S (S (length (ebytes st'))))%nat /\
    hparse_all (ebytes st') = Ok (HObject [80] [([97], HInt 5); ([110], HRef 0)]).
Proof.
  cbv zeta. eexists. split; [vm_compute; reflexivity|]. split; [split; vm_compute; discriminate|]. split; [reflexivity|].
  split.
  - apply wf_struct.
    + vm_compute. discriminate.
    + split; [repeat constructor; unfold valid_rune; lia|vm_compute; lia].
    + reflexivity.
    + repeat constructor; try (unfold valid_rune; lia); vm_compute; lia.
    + vm_compute. discriminate.
    + repeat constructor.
  - split; [vm_compute; lia|vm_compute; reflexivity].
Qed.
