(* C14: hostile or damaged input makes the decoder return, never crash or run away.
   The decoder model (Model/Decoder.v) is a total function on ALL byte strings, type
   environments and type maps: recursion is on fuel, fuel is linear in the input
   (decode_fuel bs = 4 * length bs + 16), every index or count read from the input is compared
   with what is there before it is used, and reflect panics are errors (recovered at ReadObject
   in the code: Props/C14facts.v).  Proved for every input: a successful read consumed a
   non-empty prefix and returns exactly the rest (no work without consuming input).
   PARTIAL: that the fuel is never exhausted (i.e. that the recursion depth is bounded by
   4n+16) is validated by the correspondence run over hostile inputs, not proved; seconds and
   bytes of the real runtime are measured by the harness as a proxy. *)
From Coq Require Import ZArith List.
From GH Require Import Base.Result Spec.Grammar Model.Encoder Model.Decoder Proofs.DecoderFacts.
Import ListNotations.

Theorem C14_decode_consumes_prefix : forall te tm bs v rest st,
  decode te tm bs = Ok (v, rest, st) -> psuffix rest bs.
Proof. exact decode_consumes_prefix. Qed.
Print Assumptions C14_decode_consumes_prefix.

(* the invariant behind it, for every reader at every fuel *)
Theorem C14_every_reader_consumes_prefix : forall te tm fuel, readers_ok (readers_at te tm fuel).
Proof. exact readers_at_ok. Qed.
Print Assumptions C14_every_reader_consumes_prefix.

(* work is bounded by the size of the input: the fuel a decode may spend is linear in it *)
Theorem C14_fuel_linear : forall bs, decode_fuel bs = (4 * length bs + 16)%nat.
Proof. reflexivity. Qed.

Example C14_nonvacuous :
  exists v st, decode [] [] [88%Z; 146%Z; 145%Z; 78%Z; 7%Z] = Ok (v, [7%Z], st).
Proof. eexists; eexists. vm_compute. reflexivity. Qed.
