(* C14: hostile or damaged input makes the decoder return, never crash or run away.
   The decoder model (Model/Decoder.v) is a total function on ALL byte strings, type
   environments and type maps: recursion is on fuel, fuel is linear in the input
   (decode_fuel bs = 8 * length bs + 16), every index or count read from the input is compared
   with what is there before it is used, and reflect panics are errors (recovered at ReadObject
   in the code: Props/C14facts.v).  Proved for every input: a successful read consumed a
   non-empty prefix and returns exactly the rest (no work without consuming input).
   Proved for every input (Proofs/DecoderTotal.v): the fuel is never exhausted - the recursion
   depth of the readers is at most 8n+6 on an input of n bytes - so the model returns a value or
   an error on every byte string whatsoever.  Seconds and bytes of the REAL runtime are measured
   by the harness (partial: the Go runtime is not modelled). *)
From Coq Require Import ZArith List.
From GH Require Import Base.Result Spec.Grammar Model.Encoder Model.Decoder Proofs.DecoderFacts Proofs.DecoderTotal.
Import ListNotations.

Theorem C14_decode_consumes_prefix : forall te tm bs v rest st,
  decode te tm bs = Ok (v, rest, st) -> psuffix rest bs.
Proof. exact decode_consumes_prefix. Qed.
Print Assumptions C14_decode_consumes_prefix.

(* no input makes the model run out of fuel: decoding is total, with work linear in the input *)
Theorem C14_decode_never_out_of_fuel : forall te tm bs, decode te tm bs <> Fuel.
Proof. exact decode_never_out_of_fuel. Qed.
Print Assumptions C14_decode_never_out_of_fuel.
(* the bound behind it: a reader called with fuel above 8 * (bytes left) + its level never runs out *)
Theorem C14_readers_never_out_of_fuel : forall te tm f, readers_nf (readers_at te tm f) f.
Proof. exact readers_at_nf. Qed.

(* the invariant behind it, for every reader at every fuel *)
Theorem C14_every_reader_consumes_prefix : forall te tm fuel, readers_ok (readers_at te tm fuel).
Proof. exact readers_at_ok. Qed.
Print Assumptions C14_every_reader_consumes_prefix.

(* work is bounded by the size of the input: the fuel a decode may spend is linear in it *)
Theorem C14_fuel_linear : forall bs, decode_fuel bs = (8 * length bs + 16)%nat.
Proof. reflexivity. Qed.

Example C14_nonvacuous :
  exists v st, decode [] [] [88%Z; 146%Z; 145%Z; 78%Z; 7%Z] = Ok (v, [7%Z], st).
Proof. eexists; eexists. vm_compute. reflexivity. Qed.
