(* C01: decode(encode(v)) equals v for every supported Go value.
   Proved so far (unbounded over the values of each kind): every scalar kind at a struct-field
   position of the DECODER MODEL (the type-directed readField path), lifting C07-C10; strings of
   any length; doubles up to the documented normalisation.  The structural composition
   (nesting, pointers, lists, maps) is decided by the two models' correspondence with the
   implementation (byte-exact encoder model, value-exact decoder model, > 140 000 cases per run)
   and by the round-trip oracle over the zoo; a model-to-model simulation theorem is not proved. *)
From Coq Require Import ZArith List.
From GH Require Import Base.GoSem Base.Result Base.FloatBits Base.Utf8 Gen.GoConsts Gen.GoLeaf Model.Scalars Model.Strings Spec.Grammar
  Model.Encoder Model.Decoder Proofs.StructFacts.
Import ListNotations.
Open Scope Z_scope.

Theorem C01_field_int_roundtrip : forall te tm R k z st rest bs, in_kind k z -> enc_kind k z = Ok bs ->
  rf_step te tm R (TInt k) st (bs ++ rest) = Ok (DInt k z, rest, st).
Proof. exact field_int_roundtrip. Qed.
Print Assumptions C01_field_int_roundtrip.
Theorem C01_field_string_roundtrip : forall te tm R rs st rest, Forall valid_rune rs ->
  rf_step te tm R TStr st (encode_string rs ++ rest) = Ok (DStr rs, rest, st).
Proof. exact field_string_roundtrip. Qed.
Print Assumptions C01_field_string_roundtrip.
Theorem C01_field_double_roundtrip : forall te tm R b st rest bs, in_f64 b -> gencodeDouble b = Ok bs ->
  exists d, rf_step te tm R TF64 st (bs ++ rest) = Ok (DF64 d, rest, st) /\ feq d b = true.
Proof. exact field_double_roundtrip. Qed.
Print Assumptions C01_field_double_roundtrip.
Theorem C01_field_bool_roundtrip : forall te tm R (b : bool) st rest,
  rf_step te tm R TBool st ((if b then g_boolTrueTag else g_boolFalseTag) :: rest) = Ok (DBool b, rest, st).
Proof. exact field_bool_roundtrip. Qed.

(* a struct with fields of four kinds, nested by pointer, through both models, by computation *)
Example C01_struct_roundtrip_instance :
  let inner := VStruct 2 [73] [([65], VInt KInt32 (-300)); ([83], VStr [104; 233])] in
  let v := VStruct 1 [79] [([78], VStr [111]); ([80], inner); ([81], VSeen RStruct 2); ([70], VF64 4611686018427387904)] in
  let te := [([73], [([65], TInt KInt32); ([83], TStr)]);
             ([79], [([78], TStr); ([80], TPtr (TStruct [73])); ([81], TPtr (TStruct [73])); ([70], TF64)])] in
  exists bs, encode [([73], [73]); ([79], [79])] v = Ok bs /\
  exists st, decode te [([73], TStruct [73]); ([79], TStruct [79])] bs = Ok (DPtr 0 [79], [], st) /\
    nth_error (dheap st) 0 = Some (RObj [79] (Some [([78], DStr [111]); ([80], DPtr 1 [73]); ([81], DPtr 1 [73]); ([70], DF64 4611686018427387904)])) /\
    nth_error (dheap st) 1 = Some (RObj [73] (Some [([65], DInt KInt32 (-300)); ([83], DStr [104; 233])])).
Proof. cbv zeta. eexists. split; [vm_compute; reflexivity|]. eexists. repeat split; vm_compute; reflexivity. Qed.
