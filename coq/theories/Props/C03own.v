(* C03 as the property words it: ANY legal rendering of a value decodes to the same Go value as
   the encoder's own rendering of it.

   Composition of C02 (`encode_parses`: the encoder model's output is read by the reference
   grammar as an abstract value hv denoting the Go value) with the two directions of
   Proofs/DecRefines*.v: whatever the decoder model makes of the encoder's bytes, it makes of every
   other byte string that the grammar reads as the same hv - same decoded value, same reference
   table, nothing left over.  Hypotheses on the Go value only: those of C02, byte-slice payloads
   are octets (`pok`), no timestamp other than the zero time (`notime`: the compact date form is
   the known finding C03-F1). *)
From Coq Require Import ZArith List Lia.
From GH Require Import Base.GoSem Base.Result Base.Utf8 Gen.GoLeaf Model.Scalars Model.Strings Spec.Grammar
  Model.Encoder Model.Decoder Model.Session Proofs.EncoderFacts Proofs.EncSpec Proofs.EncBytes Proofs.DecRefines Proofs.DecRefinesConv Proofs.DenReg Props.C02struct.
Import ListNotations.
Open Scope Z_scope.

Theorem C03_any_rendering_decodes_like_the_encoders_own : forall nm F v st' te tm,
  write_data v (estate0 nm) = Ok st' -> small st' -> nm_complete nm v = true ->
  wfv nm F (S (length (ebytes st'))) v -> (need v <= S (S (length (ebytes st'))))%nat -> pok v -> notime v ->
  exists hv pst1, den nm F [] v hv (erefs st') /\ hparse pstate0 (ebytes st') = Ok (hv, [], pst1) /\
    forall bs2 st2 d r1 s1, hparse pstate0 bs2 = Ok (hv, [], st2) ->
      bytes_ok bs2 ->
      decode te tm (ebytes st') = Ok (d, r1, s1) ->
      decode te tm bs2 = Ok (d, [], dst_of st2 (dheap s1)).
Proof.
  intros nm F v st' te tm W Sm Hc Hw Hn Pk Nt.
  destruct (encode_parses nm F _ v st' W Sm Hc Hw) as (hv & pst1 & D & V).
  exists hv, pst1. split; [exact D|]. split; [unfold hparse; apply V; exact Hn|].
  intros bs2 st2 d r1 s1 P2 B2 D1. pose proof (encode_octets nm v st' Pk W) as B1.
  pose proof (den_reg nm F _ _ _ _ D Nt) as Rg.
  refine (proj2 (proj2 (renderings_decode_alike_iff te tm (ebytes st') bs2 hv pst1 st2 d r1 s1 _ P2 B1 B2 Rg D1))).
  unfold hparse. apply V. exact Hn.
Qed.
Print Assumptions C03_any_rendering_decodes_like_the_encoders_own.

(* non-vacuity: P{A: 5, N: <the value itself>} - the encoder's rendering and one that differs in
   every choice ('O' long-form instance, 'I' four-octet integers, also inside the back-reference) *)
Lemma bytes_okb_ok bs : bytes_okb bs = true -> bytes_ok bs.
Proof.
  unfold bytes_okb, bytes_ok. intros H. apply Forall_forall. intros x Hx.
  rewrite forallb_forall in H. specialize (H x Hx). lia.
Qed.
Example C03_own_nonvacuous :
  let nm := [([80], [80])] in
  let F := fun c : name => if name_eqb c [80] then [[97]; [110]] else [] in
  let v := VStruct 1 [80] [([65], VInt KInt32 5); ([78], VSeen RStruct 1)] in
  let te : tenv := [([80], [([65], TInt KInt32); ([78], TPtr (TStruct [80]))])] in
  let tm : typmap := [([80], TStruct [80])] in
  let bs2 := [67; 1; 80; 146; 1; 97; 1; 110] ++ [79; 144] ++ [73; 0; 0; 0; 5] ++ [81; 73; 0; 0; 0; 0] in
  exists st' s1 st2, write_data v (estate0 nm) = Ok st' /\ ebytes st' <> bs2 /\
    decode te tm (ebytes st') = Ok (DPtr 0 [80], [], s1) /\
    decode te tm bs2 = Ok (DPtr 0 [80], [], dst_of st2 (dheap s1)).
Proof.
  cbv zeta.
  destruct C02struct.C02_structural_nonvacuous as (st' & W & Sm & Hc & Hw & Hn & _).
  destruct (C03_any_rendering_decodes_like_the_encoders_own _ _ _ _
              [([80], [([65], TInt KInt32); ([78], TPtr (TStruct [80]))])] [([80], TStruct [80])] W Sm Hc Hw Hn
              ltac:(repeat (constructor; cbn [snd])) ltac:(repeat (constructor; cbn [snd])))
    as (hv & pst1 & _ & P1 & K).
  assert (E : exists bs, ebytes st' = bs /\ bytes_okb bs = true /\ bs <> [67; 1; 80; 146; 1; 97; 1; 110] ++ [79; 144] ++ [73; 0; 0; 0; 5] ++ [81; 73; 0; 0; 0; 0]).
  { vm_compute in W. inversion W; subst. eexists. split; [reflexivity|]. split; [vm_compute; reflexivity|vm_compute; discriminate]. }
  destruct E as (bs & Eb & Bb & Nb). rewrite Eb in *.
  assert (Hv : hv = HObject [80] [([97], HInt 5); ([110], HRef 0)]).
  { vm_compute in W. inversion W; subst. vm_compute in P1. inversion P1; subst. reflexivity. }
  subst hv.
  assert (D1 : exists s1, decode [([80], [([65], TInt KInt32); ([78], TPtr (TStruct [80]))])] [([80], TStruct [80])] bs = Ok (DPtr 0 [80], [], s1)).
  { vm_compute in W. inversion W; subst. eexists. vm_compute. reflexivity. }
  destruct D1 as (s1 & D1).
  eexists st', s1, _. rewrite Eb. split; [exact W|]. split; [exact Nb|]. split; [exact D1|].
  eapply K; try exact D1.
  - vm_compute. reflexivity.
  - apply bytes_okb_ok. vm_compute. reflexivity.
Qed.
