(* C01 for dynamic data at interface-typed positions (nil, booleans, integers of every kind,
   floats, strings, byte slices, untyped lists and untyped maps of such data, nested to any depth;
   containers not shared with another position): ToObject(ToBytes(v)) is v in its canonical
   dynamic form - integers as int32 / int64 by wire type, float32 widened, an untyped list as
   []interface{}, an untyped map as map[interface{}]interface{}.

   Composition of C02 (`encode_parses`), C03 (`decoder_refines_grammar`) and the bytes-free step
   `dynamic_meaning` (Proofs/DynRoundTrip.v): the meaning of what such a value denotes is the
   value. *)
From Coq Require Import ZArith List Lia.
From GH Require Import Base.GoSem Base.Result Base.Utf8 Gen.GoLeaf Model.Scalars Model.Strings Spec.Grammar
  Model.Encoder Model.Decoder Model.Session Proofs.EncoderFacts Proofs.EncSpec Proofs.EncBytes Proofs.DecRefines
  Proofs.DynRoundTrip.
Import ListNotations.
Open Scope Z_scope.

Theorem C01_dynamic_roundtrip : forall nm F v st' te tm,
  write_data v (estate0 nm) = Ok st' -> small st' -> nm_complete nm v = true ->
  wfv nm F (S (length (ebytes st'))) v -> (need v <= S (S (length (ebytes st'))))%nat ->
  pok v -> jv nm v ->
  exists d pst h', jr nm v d /\ decode te tm (ebytes st') = Ok (d, [], dst_of pst h').
Proof.
  intros nm F v st' te tm W Sm Hc Hw Hn Pk Jv.
  destruct (encode_parses nm F _ v st' W Sm Hc Hw) as (hv & pst & D & V).
  destruct (dynamic_meaning nm F te tm _ _ _ _ D Jv []) as (d & h' & J & S).
  exists d, pst, h'. split; [exact J|].
  eapply decoder_refines_grammar; [unfold hparse; apply V; exact Hn|exact (encode_octets nm v st' Pk W)|exact S].
Qed.
Print Assumptions C01_dynamic_roundtrip.

(* non-vacuity: []interface{}{int32(5), "a", map[interface{}]interface{}{"k": nil, int64(7): true}, []byte{1,2}} *)
Example C01_dynamic_nonvacuous :
  let nm : namemap := [] in
  let F := fun _ : name => @nil name in
  let v := VSlice 0 [] [VInt KInt32 5; VStr [97]; VMap 0 [] [(VStr [107], VNil); (VInt KInt64 7, VBool true)]; VBytes [1; 2]] in
  exists st', write_data v (estate0 nm) = Ok st' /\ small st' /\ nm_complete nm v = true /\
    wfv nm F (S (length (ebytes st'))) v /\ (need v <= S (S (length (ebytes st'))))%nat /\ pok v /\ jv nm v /\
    jr nm v (DSlice TIface [DInt KInt32 5; DStr [97]; DMapV TIface TIface [(DStr [107], DNil); (DInt KInt64 7, DBool true)]; DBytes [1; 2]]).
Proof.
  cbv zeta. eexists. split; [vm_compute; reflexivity|]. split; [split; vm_compute; discriminate|]. split; [reflexivity|].
  split.
  { apply wf_slice; [intros ltn E; discriminate E|vm_compute; discriminate|].
    repeat constructor; try (unfold valid_rune; lia); try (vm_compute; lia); try (intros ? E; discriminate E); try match goal with H : nm_lookup [] _ = Some _ |- _ => discriminate H end. }
  split; [vm_compute; lia|].
  split; [repeat (constructor; cbn [fst snd]); lia|].
  split.
  { apply jv_list; [reflexivity|]. repeat (constructor; cbn [fst snd jkey]); try reflexivity; try exact I. }
  apply jr_list; [reflexivity|].
  constructor; [change 5 with (swrap 32 5); apply jr_int; reflexivity|].
  constructor; [constructor|]. constructor; [|constructor; [constructor|constructor]].
  apply jr_map; [reflexivity|].
  eapply jes_cons; [constructor|constructor|reflexivity|]. cbn [entries_put].
  eapply jes_cons; [change 7 with (swrap 64 7); apply jr_long; reflexivity|constructor|reflexivity|]. cbn. constructor.
Qed.
