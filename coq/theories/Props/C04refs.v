(* C04 on the decoder's side, for lists and maps as well as objects, stated on the decoder's
   semantics of abstract values (`sv`, Proofs/DecRefines.v - by the two directions of C03 this is
   what the decoder model does on every input the grammar accepts):

   - reading anything only EXTENDS the reference table: it never shrinks and no cell registered
     earlier changes (semantics_extend);
   - a list, map or object read when k containers were registered takes ordinal k;
   - from then on, whatever is read next, a back-reference to k yields the very value that was
     returned at the first occurrence - the same list, the same map, the pointer to the same
     object cell - so positions that shared a container in the sender share it in the receiver.

   Together with the encoder side (ordinals assigned in the order of first occurrence, one per
   address and kind: Props/C04.v; `den` writes HRef of that ordinal: Props/C02struct.v) this is
   the sharing half of C04 for every container kind. *)
From Coq Require Import ZArith List Lia String Ascii.
From GH Require Import Base.GoSem Base.Result Base.Utf8 Gen.GoLeaf Model.Scalars Model.Strings Spec.Grammar
  Model.Encoder Model.Decoder Proofs.EncoderFacts Proofs.EncSpec Proofs.DecRefines Proofs.RefTable Props.C03refines.
Import ListNotations.
Open Scope Z_scope.

Theorem C04_reading_extends_the_table : forall te tm hv h d h', sv te tm hv h d h' -> ext h h'.
Proof. intros te tm. exact (sv_extends te tm). Qed.
Print Assumptions C04_reading_extends_the_table.

Theorem C04_list_ref_is_first_occurrence : forall te tm ty vs h d h1 h2,
  slist te tm ty vs h d h1 -> ext h1 h2 -> ref_val h2 (Z.of_nat (List.length h)) = Some d.
Proof. exact list_ref_is_first_occurrence. Qed.
Print Assumptions C04_list_ref_is_first_occurrence.

Theorem C04_map_ref_is_first_occurrence : forall te tm kt vt es h d h1 h2,
  smap te tm kt vt es h d h1 -> ext h1 h2 -> ref_val h2 (Z.of_nat (List.length h)) = Some d.
Proof. exact map_ref_is_first_occurrence. Qed.
Print Assumptions C04_map_ref_is_first_occurrence.

Theorem C04_object_ref_is_first_occurrence : forall te tm c fs h d h1 h2,
  sobj te tm c fs h d h1 -> ext h1 h2 ->
  ref_val h2 (Z.of_nat (List.length h)) = Some d /\ exists n out, d = DPtr (List.length h) n /\ nth_error h2 (List.length h) = Some (RObj n (Some out)).
Proof. exact object_ref_is_first_occurrence. Qed.
Print Assumptions C04_object_ref_is_first_occurrence.

(* sender and receiver count alike: after any value, from tables of equal size, both have
   registered the same number of containers (one per list, map and object instance written out;
   none for a back-reference or a null), so the ordinal written in a back-reference is the index
   of the receiver's cell *)
Theorem C04_ordinals_agree : forall nm F f0 te tm refs v hv refs' h d h',
  den nm F refs v hv refs' -> wfv nm F f0 v -> sv te tm hv h d h' ->
  List.length refs = List.length h -> List.length refs' = List.length h'.
Proof. exact ordinals_agree. Qed.
Print Assumptions C04_ordinals_agree.

Theorem C04_receiver_registers_one_cell_per_container : forall te tm hv h d h',
  sv te tm hv h d h' -> List.length h' = (List.length h + containers hv)%nat.
Proof. intros te tm. exact (proj1 (semantics_count te tm)). Qed.
Print Assumptions C04_receiver_registers_one_cell_per_container.

(* non-vacuity, on the value of Props/C03refines.v: the outer list took ordinal 0, the object 1,
   its Tags list 2, the last list 3; in the final table a reference to 2 is the Tags list itself *)
Example C04_refs_nonvacuous :
  sv teP tmP hvP [] dP hP /\ ext [] hP /\ containers hvP = 4%nat /\ List.length hP = 4%nat /\
  ref_val hP 0 = Some dP /\ ref_val hP 1 = Some (DPtr 1 (cps "P")) /\ ref_val hP 2 = Some (DSlice TStr [DStr (cps "x")]).
Proof.
  destruct C03_example_meaning as (d & h' & S & -> & ->).
  split; [exact S|]. split; [exact (C04_reading_extends_the_table _ _ _ _ _ _ S)|]. repeat split; vm_compute; reflexivity.
Qed.
