(* C06 end to end for streams of ANY supported values, not only the scalar/struct fragment of
   Props/C06stream.v: the values vs written one after the other by ONE encoder (write_items =
   successive Encoder.WriteObject calls sharing the class and reference tables), followed by any
   octets `rest` that belong to somebody else, are
     - read by the reference grammar as length vs values hs that denote vs (den_list: later values
       may refer back to containers of earlier ones and reuse their class definitions), and
     - returned by length vs successive reads of ONE decoder as meanings of hs, each read stopping
       exactly where the next value starts, `rest` handed back untouched.
   Composition of Proofs/EncSpec.v (items_ok/enc_parses), Proofs/EncBytes.v (the encoder emits
   octets) and Proofs/StreamRefines.v. *)
From Coq Require Import ZArith List Lia.
From GH Require Import Base.GoSem Base.Result Base.Utf8 Gen.GoLeaf Model.Scalars Model.Strings Spec.Grammar
  Model.Encoder Model.Decoder Model.Session Proofs.EncoderFacts Proofs.EncSpec Proofs.EncBytes Proofs.RoundTrip Proofs.DecRefines
  Proofs.StreamRefines Proofs.StreamOwn.
Import ListNotations.
Open Scope Z_scope.

Theorem C06_any_values_on_one_stream : forall nm F f0 vs st' te tm,
  write_items vs (estate0 nm) = Ok st' -> small st' -> forallb (nm_complete nm) vs = true ->
  Forall (wfv nm F f0) vs -> Forall pok vs ->
  exists hs, den_list nm F [] vs hs (erefs st') /\
    forall rest, bytes_ok rest -> exists pst',
      (forall f, (need_items vs <= f)%nat ->
         hparse_n f0 f (length vs) pstate0 (ebytes st' ++ rest) = Ok (hs, rest, pst')) /\
      forall items h', sn te tm TIface hs [] items h' -> forall g, (2 * need_items vs <= g)%nat ->
        read_n te tm g (length vs) dstate0 (ebytes st' ++ rest) = Ok (items, rest, dst_of pst' h').
Proof. exact encoder_stream_refines. Qed.
Print Assumptions C06_any_values_on_one_stream.

(* non-vacuity: the pointer p = &P{A: 5, N: p}, the integer 7 and p again written on one stream
   (the third value goes out as a back-reference to the first), then an octet that belongs to
   nobody: three reads return the same object twice and hand the octet back *)
Example C06_own_nonvacuous :
  let nm := [([80], [80])] in
  let F := fun c : name => if name_eqb c [80] then [[97]; [110]] else [] in
  let v := VStruct 1 [80] [([65], VInt KInt32 5); ([78], VSeen RStruct 1)] in
  let te : tenv := [([80], [([65], TInt KInt32); ([78], TPtr (TStruct [80]))])] in
  let tm : typmap := [([80], TStruct [80])] in
  exists st' dst, write_items [v; VInt KInt32 7; v] (estate0 nm) = Ok st' /\
    read_n te tm 100 3 dstate0 (ebytes st' ++ [9]) = Ok ([DPtr 0 [80]; DInt KInt32 7; DPtr 0 [80]], [9], dst).
Proof.
  cbv zeta.
  assert (W : exists st', write_items [VStruct 1 [80] [([65], VInt KInt32 5); ([78], VSeen RStruct 1)]; VInt KInt32 7;
                                      VStruct 1 [80] [([65], VInt KInt32 5); ([78], VSeen RStruct 1)]] (estate0 [([80], [80])]) = Ok st')
    by (eexists; vm_compute; reflexivity).
  destruct W as (st' & W). exists st'.
  assert (Wv : forall f0, (2 < f0)%nat -> wfv [([80], [80])] (fun c : name => if name_eqb c [80] then [[97]; [110]] else []) f0
                 (VStruct 1 [80] [([65], VInt KInt32 5); ([78], VSeen RStruct 1)])).
  { intros f0 Hf. apply wf_struct.
    - vm_compute. discriminate.
    - split; [repeat constructor; unfold valid_rune; lia|]. vm_compute. lia.
    - reflexivity.
    - cbn. repeat constructor; try (unfold valid_rune; lia); vm_compute; lia.
    - vm_compute. discriminate.
    - repeat constructor. }
  destruct (C06_any_values_on_one_stream [([80], [80])] (fun c : name => if name_eqb c [80] then [[97]; [110]] else []) 10 _ st'
              [([80], [([65], TInt KInt32); ([78], TPtr (TStruct [80]))])] [([80], TStruct [80])] W)
    as (hs & D & K).
  - vm_compute in W. inversion W; subst. split; vm_compute; discriminate.
  - reflexivity.
  - apply Forall_cons; [apply Wv; lia|]. apply Forall_cons; [apply wf_int|]. apply Forall_cons; [apply Wv; lia|apply Forall_nil].
  - repeat (constructor; cbn [snd]).
  - destruct (K [9] ltac:(repeat constructor; lia)) as (pst' & P & R).
    assert (Hs : hs = [HObject [80] [([97], HInt 5); ([110], HRef 0)]; HInt 7; HRef 0]).
    { specialize (P 50%nat). vm_compute in W. inversion W; subst. vm_compute in P. specialize (P ltac:(lia)). inversion P; subst. reflexivity. }
    subst hs. eexists. split; [exact W|]. eapply R; [|vm_compute; lia].
    eapply sn_cons; [|reflexivity|].
    + eapply sv_obj, sobj_intro; [reflexivity|reflexivity|reflexivity|].
      eapply sfs_known; [reflexivity|apply sf_int; reflexivity|].
      eapply sfs_known; [reflexivity| |apply sfs_nil].
      eapply sf_struct; [exact I|apply ss_ref; reflexivity|reflexivity].
    + eapply sn_cons; [apply sv_int|reflexivity|].
      eapply sn_cons; [apply sv_ref; reflexivity|reflexivity|apply sn_nil].
Qed.
