(* C09: strings and byte arrays of any length and content are carried exactly.
   A string is its list of code points; encode_string / decode_string / encode_binary /
   decode_binary are the hand models of string.go and binary.go over the generated constants and
   tag predicates; they are tied to the code by the correspondence run. *)
From Coq Require Import ZArith List.
From GH Require Import Base.GoSem Base.Result Base.Utf8 Model.Strings Proofs.Utf8Proofs Proofs.BinaryProofs Proofs.StringProofs.
Import ListNotations.
Open Scope Z_scope.

Theorem C09_utf8_roundtrip : forall r rest, valid_rune r -> utf8_dec (utf8_enc r ++ rest) = Some (r, rest).
Proof. exact utf8_roundtrip. Qed.
Print Assumptions C09_utf8_roundtrip.

(* every valid string, of any length (no bound), incl. the empty string: exact content, exact framing *)
Theorem C09_string_roundtrip : forall rs rest, Forall valid_rune rs ->
  decode_string (encode_string rs ++ rest) = Ok (rs, rest).
Proof. exact string_roundtrip. Qed.
Print Assumptions C09_string_roundtrip.

(* length prefixes count code points and every chunk holds whole code points *)
Theorem C09_string_chunks_whole_runes : forall rs, str_chunked rs (encode_string rs).
Proof. exact string_chunks_whole_runes. Qed.
Print Assumptions C09_string_chunks_whole_runes.

Theorem C09_binary_roundtrip : forall bs rest, decode_binary (encode_binary bs ++ rest) = Ok (bs, rest).
Proof. exact binary_roundtrip. Qed.
Print Assumptions C09_binary_roundtrip.

Theorem C09_string_bytes_ok : forall rs, bytes_ok (encode_string rs).
Proof. exact string_bytes_ok. Qed.
Print Assumptions C09_string_bytes_ok.
Theorem C09_binary_bytes_ok : forall bs, bytes_ok bs -> bytes_ok (encode_binary bs).
Proof. exact binary_bytes_ok. Qed.
Print Assumptions C09_binary_bytes_ok.

Example C09_nonvacuous :
  Forall valid_rune [104; 233; 20013; 128512] /\ encode_string [104; 233; 20013; 128512] = [4; 104; 195; 169; 228; 184; 173; 240; 159; 152; 128].
Proof. exact string_nonvacuous. Qed.
