(* C17, tie to the source (regenerated on every run): both channel operations of pool.go are
   select-with-default, i.e. the try-operations that the total step functions of Model/Pool.v describe *)
From Coq Require Import String List.
From GH Require Import Gen.GoFacts Proofs.PoolFacts.
Import ListNotations.
Open Scope string_scope.
Theorem C17_source_ops_are_try_ops :
  chan_ops = [("objectPool.Get", "recv", true); ("objectPool.Return", "send", true)].
Proof. exact pool_chan_ops_nonblocking. Qed.
Print Assumptions C17_source_ops_are_try_ops.
