(* Hand-written model of the decoder: ReadData, readStruct, ReadList, readTypedList,
   readUntypedList, readTypedMap, readUntypedMap, readMap, readObject, readField, readRef,
   readType, and the observable behaviour of SetValue / SetSlice / ConvertSliceValueType
   (decoder.go, object.go, list.go, map.go, ref.go, type.go, reflection.go).

   Decoded values carry their dynamic Go type.  Objects live in a heap of cells registered
   BEFORE their fields are read (that is what makes cycles work); a pointer is the index of its
   cell.  Every reflect panic the code can reach is recovered at ReadObject and is an error
   here.  The outcome `Panic` of the result type is used for "outside the modelled fragment"
   (written Unmodelled): a reference to a list or map still under construction, a struct copied
   by value while under construction, typed maps bound to struct types, pointers to non-struct
   types.  The correspondence run skips those cases and counts them. *)
From Coq Require Import ZArith List Bool.
From GH Require Import Base.GoSem Base.Result Base.FloatBits Base.TimeSem Base.Utf8 Gen.GoConsts Gen.GoLeaf
  Model.Scalars Model.Strings Spec.Grammar Model.Encoder.
Import ListNotations.
Open Scope Z_scope.

Notation Unmodelled := Panic.

Inductive gtype :=
| TBool | TInt (k : ikind) | TF32 | TF64 | TStr | TTime | TBytes
| TStruct (n : name) | TPtr (t : gtype) | TSlice (t : gtype) | TMap (k v : gtype) | TIface | TOther.

Definition ikind_eqb (a b : ikind) : bool :=
  match a, b with
  | KInt, KInt | KInt8, KInt8 | KInt16, KInt16 | KInt32, KInt32 | KInt64, KInt64
  | KUint, KUint | KUint8, KUint8 | KUint16, KUint16 | KUint32, KUint32 | KUint64, KUint64 => true
  | _, _ => false
  end.
Fixpoint gtype_eqb (a b : gtype) : bool :=
  match a, b with
  | TBool, TBool | TF32, TF32 | TF64, TF64 | TStr, TStr | TTime, TTime | TBytes, TBytes | TIface, TIface | TOther, TOther => true
  | TInt k, TInt k' => ikind_eqb k k'
  | TStruct n, TStruct n' => name_eqb n n'
  | TPtr t, TPtr t' => gtype_eqb t t'
  | TSlice t, TSlice t' => gtype_eqb t t'
  | TMap k v, TMap k' v' => gtype_eqb k k' && gtype_eqb v v'
  | _, _ => false
  end.

Definition tenv := list (name * list (name * gtype)).     (* struct type -> fields in declaration order *)
Definition typmap := list (name * gtype).                  (* wire name -> Go type *)
Fixpoint tm_lookup (tm : typmap) (k : name) : option gtype :=
  match tm with [] => None | (k', v) :: r => if name_eqb k k' then Some v else tm_lookup r k end.
Fixpoint te_lookup (te : tenv) (k : name) : option (list (name * gtype)) :=
  match te with [] => None | (k', v) :: r => if name_eqb k k' then Some v else te_lookup r k end.

Inductive dval :=
| DNil
| DBool (b : bool)
| DInt (k : ikind) (z : Z)
| DF32 (b : Z)
| DF64 (b : Z)
| DStr (rs : list Z)
| DBytes (bs : bytes)
| DTime (sec nsec : Z)
| DPtr (r : nat) (ty : name)                      (* pointer to the struct in heap cell r *)
| DStructV (ty : name) (fields : list (name * dval))
| DSlice (ety : gtype) (items : list dval)
| DMapV (kty vty : gtype) (entries : list (dval * dval)).

Inductive rcell :=
| RObj (ty : name) (fields : option (list (name * dval)))   (* None: still under construction *)
| RList (v : option dval)
| RMap (v : option dval).

Record dstate := { dtypes : list name; dcls : list (name * list name); dheap : list rcell }.
Definition dstate0 : dstate := {| dtypes := []; dcls := []; dheap := [] |}.
Definition dres (A : Type) := result (A * bytes * dstate).

Definition heap_push (st : dstate) (c : rcell) : dstate :=
  {| dtypes := dtypes st; dcls := dcls st; dheap := dheap st ++ [c] |}.
Fixpoint list_set {A} (l : list A) (i : nat) (x : A) : list A :=
  match l, i with
  | [], _ => []
  | _ :: r, O => x :: r
  | y :: r, S i' => y :: list_set r i' x
  end.
Definition heap_set (st : dstate) (i : nat) (c : rcell) : dstate :=
  {| dtypes := dtypes st; dcls := dcls st; dheap := list_set (dheap st) i c |}.

Definition dtype_of (v : dval) : gtype :=
  match v with
  | DNil => TOther | DBool _ => TBool | DInt k _ => TInt k | DF32 _ => TF32 | DF64 _ => TF64
  | DStr _ => TStr | DBytes _ => TBytes | DTime _ _ => TTime
  | DPtr _ ty => TPtr (TStruct ty) | DStructV ty _ => TStruct ty
  | DSlice e _ => TSlice e | DMapV k v _ => TMap k v
  end.

(* the zero value of a type; by-value structs nest only finitely *)
Fixpoint zero_of (fuel : nat) (te : tenv) (t : gtype) : dval :=
  match t with
  | TBool => DBool false | TInt k => DInt k 0 | TF32 => DF32 0 | TF64 => DF64 0 | TStr => DStr []
  | TTime => DTime zero_time_sec 0 | TBytes => DBytes []
  | TStruct n =>
    match fuel with
    | O => DStructV n []
    | S f => match te_lookup te n with
             | Some fs => DStructV n (map (fun p => (fst p, zero_of f te (snd p))) fs)
             | None => DStructV n []
             end
    end
  | TPtr _ => DNil | TSlice e => DSlice e [] | TMap k v => DMapV k v [] | TIface => DNil | TOther => DNil
  end.
Definition zero (te : tenv) (t : gtype) : dval := zero_of 8 te t.

Definition is_signed (k : ikind) : bool :=
  match k with KInt | KInt8 | KInt16 | KInt32 | KInt64 => true | _ => false end.

(* reflection.go SetValue: the value a destination of type dest holds after SetValue(dest, v).
   Mismatches are reflect panics in the code, recovered at ReadObject: errors here. *)
Definition set_value (te : tenv) (heap : list rcell) (dest : gtype) (v : dval) : result dval :=
  match v with
  | DNil => Ok (zero te dest)                       (* invalid value: the destination keeps its zero value *)
  | _ =>
    match dest with
    | TIface => Ok v
    | TPtr (TStruct n) =>
      match v with
      | DPtr r ty => if name_eqb ty n then Ok v else Err ECodec
      | DStructV _ _ => Unmodelled                  (* PackPtr of a struct value: a pointer outside the heap *)
      | _ => Err ECodec
      end
    | TPtr _ => Unmodelled
    | TStruct n =>
      match v with
      | DPtr r ty =>
        if name_eqb ty n then
          match nth_error heap r with
          | Some (RObj _ (Some fs)) => Ok (DStructV n fs)
          | _ => Unmodelled                          (* copied by value while under construction *)
          end
        else Err ECodec
      | DStructV ty fs => if name_eqb ty n then Ok v else Err ECodec
      | _ => Err ECodec
      end
    | TTime => match v with DTime _ _ => Ok v | _ => Err ECodec end
    | TF64 => match v with DF64 b => Ok (DF64 b) | DF32 b => Ok (DF64 (widen b)) | _ => Err ECodec end
    | TF32 => match v with DF64 b => Ok (DF32 (narrow b)) | DF32 b => Ok (DF32 b) | _ => Err ECodec end
    | TInt k =>
      match v with
      | DInt k' z =>
        if ikind_eqb k k' then Ok v
        else if is_signed k then
          match k' with KInt64 | KInt32 => Ok (DInt k (set_kind k z)) | _ => Err ECodec end
        else
          match k' with KInt64 | KInt32 | KUint64 | KUint32 => Ok (DInt k (set_kind k z)) | _ => Err ECodec end
      | _ => Err ECodec
      end
    | TStr => match v with DStr _ => Ok v | _ => Err ECodec end
    | TBool => match v with DBool _ => Ok v | _ => Err ECodec end
    | TBytes => match v with DBytes _ => Ok v | _ => Err ECodec end
    | TSlice e => match v with DSlice e' _ => if gtype_eqb e e' then Ok v else Err ECodec | _ => Err ECodec end
    | TMap k x =>
      match v with
      | DMapV k' x' _ => if gtype_eqb k k' && gtype_eqb x x' then Ok v
                         else Unmodelled      (* a map of another type (an untyped map nested in a list or map): converted entry by entry *)
      | _ => Err ECodec
      end
    | TOther => Err ECodec
    end
  end.

Fixpoint map_result {A B} (f : A -> result B) (l : list A) : result (list B) :=
  match l with
  | [] => Ok []
  | x :: r => match f x with
              | Ok y => match map_result f r with Ok ys => Ok (y :: ys) | Err e => Err e | Panic => Panic | Fuel => Fuel end
              | Err e => Err e | Panic => Panic | Fuel => Fuel
              end
  end.

(* reflection.go SetSlice + ConvertSliceValueType: what a slice destination holds after
   SetSlice(dest, m) where m is what ReadList returned *)
Definition set_slice (te : tenv) (heap : list rcell) (dest : gtype) (m : dval) : result dval :=
  match m with
  | DNil => Ok (zero te dest)
  | _ =>
    match dest with
    | TBytes => match m with DBytes _ => Ok m | _ => Err ECodec end
    | TSlice e =>
      match m with
      | DSlice e' items =>
        if gtype_eqb e e' then Ok m
        else match items with
             | [] => Ok (zero te dest)
             | _ =>
               (* element-wise conversion; a pointer element is unpacked when the destination holds values *)
               let conv (x : dval) : result dval :=
                 let x' := match e, x with
                           | TPtr _, _ => x
                           | _, DPtr r ty => match nth_error heap r with
                                             | Some (RObj _ (Some fs)) => DStructV ty fs
                                             | _ => x end
                           | _, _ => x
                           end in
                 set_value te heap e x' in
               match map_result conv items with
               | Ok items' => Ok (DSlice e items')
               | Err er => Err er | Panic => Panic | Fuel => Fuel
               end
             end
      | DBytes [] => Ok (zero te dest)
      | DBytes bs =>
        (* ConvertSliceValueType on a byte slice: element-wise; only an interface element accepts a uint8 *)
        match e with
        | TIface => Ok (DSlice TIface (map (DInt KUint8) bs))
        | _ => Err ECodec
        end
      | _ => Err ECodec
      end
    | _ => Unmodelled
    end
  end.

(* reflection.go findField: the field whose name is the wire name, or the wire name capitalised *)
Fixpoint find_field (fs : list (name * gtype)) (wire : name) : option (name * gtype) :=
  match fs with
  | [] => None
  | (n, t) :: r => if name_eqb n wire || name_eqb n (capitalize_name wire) then Some (n, t) else find_field r wire
  end.
Fixpoint assoc_set (l : list (name * dval)) (k : name) (v : dval) : list (name * dval) :=
  match l with
  | [] => []
  | (k', v') :: r => if name_eqb k k' then (k', v) :: r else (k', v') :: assoc_set r k v
  end.

(* the Go fields a class definition binds, in wire order, and whether one is bound twice *)
Fixpoint bound_names (gfields : list (name * gtype)) (wire : list name) : list name :=
  match wire with
  | [] => []
  | w :: ws => match find_field gfields w with Some (gn, _) => gn :: bound_names gfields ws | None => bound_names gfields ws end
  end.
Fixpoint has_dup (l : list name) : bool :=
  match l with [] => false | x :: r => existsb (name_eqb x) r || has_dup r end.

(* map keys: comparable decoded values *)
Definition dkey_eqb (a b : dval) : bool :=
  match a, b with
  | DInt k z, DInt k' z' => ikind_eqb k k' && (z =? z')
  | DStr s, DStr s' => name_eqb s s'
  | DBool x, DBool y => Bool.eqb x y
  | DF64 x, DF64 y => x =? y
  | DF32 x, DF32 y => x =? y
  | DTime s n, DTime s' n' => (s =? s') && (n =? n')
  | DNil, DNil => true                              (* the nil interface key *)
  | DPtr r _, DPtr r' _ => Nat.eqb r r'
  | DStructV _ _, DStructV _ _ => false
  | _, _ => false
  end.
Definition hashable (v : dval) : bool :=
  match v with DSlice _ _ | DMapV _ _ _ | DBytes _ => false | _ => true end.
Fixpoint entries_put (es : list (dval * dval)) (k v : dval) : list (dval * dval) :=
  match es with
  | [] => [(k, v)]
  | (k', v') :: r => if dkey_eqb k k' then (k', v) :: r else (k', v') :: entries_put r k v
  end.

(* indexing with an index read from the input: never convert an unchecked Z to nat (a declared
   2^31 would be built in unary) *)
Definition nth_z {A} (l : list A) (i : Z) : option A :=
  if (i <? 0) || (Z.of_nat (length l) <=? i) then None else nth_error l (Z.to_nat i).

Definition decode_boolean (bs : bytes) : result (bool * bytes) :=
  do (t, r) <- read_tag bs ;;
  if t =? g_boolTrueTag then Ok (true, r) else if t =? g_boolFalseTag then Ok (false, r) else Err ECodec.

(* type.go readType *)
Definition read_type (st : dstate) (bs : bytes) : dres name :=
  match bs with
  | [] => Err ECodec
  | t :: r =>
    if gstringTag t then
      do (s, r') <- decode_string_tag t r ;;
      Ok (s, r', {| dtypes := dtypes st ++ [s]; dcls := dcls st; dheap := dheap st |})
    else
      do (i, r') <- decode_int_tag t r ;;
      match nth_z (dtypes st) i with
      | Some s => Ok (s, r', st)
      | None => Err ECodec
      end
  end.

(* object.go readClassDef + readAndAddClassDef (after the 'C' tag) *)
Fixpoint read_strings (n : nat) (bs : bytes) : result (list name * bytes) :=
  match n with
  | O => Ok ([], bs)
  | S n' => do (s, r) <- decode_string bs ;; do (ss, r') <- read_strings n' r ;; Ok (s :: ss, r')
  end.
Definition read_class_def (st : dstate) (bs : bytes) : dres unit :=
  do (cname, r1) <- decode_string bs ;;
  do (cnt, r2) <- decode_int r1 ;;
  if cnt <? 0 then Err ECodec else
  if Z.of_nat (length r2) <? cnt then Err ECodec else      (* each field name takes at least one byte: the read would fail *)
  do (fs, r3) <- read_strings (Z.to_nat cnt) r2 ;;
  Ok (tt, r3, {| dtypes := dtypes st; dcls := dcls st ++ [(cname, fs)]; dheap := dheap st |}).

(* ref.go readRef (after the x51 tag) *)
Definition read_ref (st : dstate) (bs : bytes) : dres dval :=
  do (i, r) <- decode_int bs ;;
  match nth_z (dheap st) i with
  | None => Err ECodec
  | Some (RObj ty _) => Ok (DPtr (Z.to_nat i) ty, r, st)
  | Some (RList (Some v)) => Ok (v, r, st)
  | Some (RMap (Some v)) => Ok (v, r, st)
  | Some _ => Unmodelled
  end.

Record readers := {
  R_rd : dstate -> bytes -> dres dval;
  R_rl : option Z -> dstate -> bytes -> dres dval;
  R_rf : gtype -> dstate -> bytes -> dres dval;
  R_ro : name -> list name -> dstate -> bytes -> dres dval;
  R_rm : gtype -> dstate -> bytes -> dres dval;
  R_rn : gtype -> nat -> dstate -> bytes -> dres (list dval);
  R_rz : gtype -> dstate -> bytes -> dres (list dval);
  R_re : gtype -> gtype -> list (dval * dval) -> dstate -> bytes -> dres (list (dval * dval));
  R_rfs : list (name * gtype) -> list name -> list (name * dval) -> dstate -> bytes -> dres (list (name * dval))
}.

Section Step.
  Variable te : tenv.
  Variable tm : typmap.
  Variable R : readers.       (* the readers of the next smaller fuel *)
  Local Notation rd := (R_rd R).
  Local Notation rl := (R_rl R).
  Local Notation rf := (R_rf R).
  Local Notation ro := (R_ro R).
  Local Notation rm := (R_rm R).
  Local Notation rn := (R_rn R).
  Local Notation rz := (R_rz R).
  Local Notation re := (R_re R).
  Local Notation rfs := (R_rfs R).

  (* one element of a list whose element type is e: ReadData, then conversion to the element type *)
  Definition elem_step (e : gtype) (st : dstate) (bs : bytes) : dres dval :=
    do (x, st1) <- rd st bs ;; let '(item, r1) := x in
    match e with
    | TIface => Ok (item, r1, st1)                       (* EnsureInterface: the value itself *)
    | _ => do el <- set_value te (dheap st1) e item ;; Ok (el, r1, st1)
    end.
  Definition rn_step (e : gtype) (n : nat) (st : dstate) (bs : bytes) : dres (list dval) :=
    match n with
    | O => Ok ([], bs, st)
    | S n' => do (x, st1) <- elem_step e st bs ;; let '(el, r1) := x in
              do (y, st2) <- rn e n' st1 r1 ;; let '(els, r2) := y in Ok (el :: els, r2, st2)
    end.
  Definition rz_step (e : gtype) (st : dstate) (bs : bytes) : dres (list dval) :=
    match elem_step e st bs with
    | Err EEof => (* io.EOF: the end marker (or the input ended inside a payload): the list ends *)
      match bs with
      | t :: r => if t =? g_endFlag then Ok ([], r, st) else Unmodelled   (* bytes consumed by the failing read are unknown *)
      | [] => Unmodelled
      end
    | Ok (el, r1, st1) => do (y, st2) <- rz e st1 r1 ;; let '(els, r2) := y in Ok (el :: els, r2, st2)
    | Err er => Err er | Panic => Panic | Fuel => Fuel
    end.

  (* list.go readTypedList / readUntypedList, after the tag *)
  Definition typed_list_step (tag : Z) (st : dstate) (bs : bytes) : dres dval :=
    do (x, st1) <- read_type st bs ;; let '(lty, r1) := x in
    do (y, r2) <-
      (if tag =? g_listVariableTypedTag then Ok (None, r1)
       else if glistFixedTypedLenTag tag then Ok (Some (wrap 8 (tag - g_listFixedTypedLenTagMin)), r1)
       else if tag =? g_listFixedTypedStartTag then do (n, r) <- decode_int r1 ;; Ok (Some n, r)
       else Err ECodec) ;;
    match y with
    | Some n =>
      if n <? 0 then Ok (DNil, r2, st1) else
      if Z.of_nat (length r2) <? n then Err ECodec else      (* each element takes at least one byte: the read would fail *)
      match tm_lookup tm lty with
      | Some (TSlice e) =>
        let idx := length (dheap st1) in
        do (z, st2) <- rn e (Z.to_nat n) (heap_push st1 (RList None)) r2 ;; let '(items, r3) := z in
        Ok (DSlice e items, r3, heap_set st2 idx (RList (Some (DSlice e items))))
      | Some TBytes => Unmodelled
      | _ => Err ECodec
      end
    | None =>
      match tm_lookup tm lty with
      | Some (TSlice e) =>
        let idx := length (dheap st1) in
        do (z, st2) <- rz e (heap_push st1 (RList None)) r2 ;; let '(items, r3) := z in
        Ok (DSlice e items, r3, heap_set st2 idx (RList (Some (DSlice e items))))
      | Some TBytes => Unmodelled
      | _ => Err ECodec
      end
    end.
  Definition untyped_list_step (tag : Z) (st : dstate) (bs : bytes) : dres dval :=
    do (y, r2) <-
      (if tag =? g_listVariableUntypedTag then Ok (None, bs)
       else if glistFixedUntypedLenTag tag then Ok (Some (wrap 8 (tag - g_listFixedUntypedLenTagMin)), bs)
       else if tag =? g_listFixedUntypedTag then do (n, r) <- decode_int bs ;; Ok (Some n, r)
       else Err ECodec) ;;
    let idx := length (dheap st) in
    match y with
    | Some n =>
      if n <? 0 then Ok (DNil, r2, st) else
      if Z.of_nat (length r2) <? n then Err ECodec else
      do (z, st2) <- rn TIface (Z.to_nat n) (heap_push st (RList None)) r2 ;; let '(items, r3) := z in
      Ok (DSlice TIface items, r3, heap_set st2 idx (RList (Some (DSlice TIface items))))
    | None =>
      do (z, st2) <- rz TIface (heap_push st (RList None)) r2 ;; let '(items, r3) := z in
      Ok (DSlice TIface items, r3, heap_set st2 idx (RList (Some (DSlice TIface items))))
    end.

  (* list.go ReadList *)
  Definition rl_step (flag : option Z) (st : dstate) (bs : bytes) : dres dval :=
    do (tag, r) <- (match flag with
                    | Some t => Ok (t, bs)
                    | None => match bs with [] => Err ECodec | t :: r => Ok (t, r) end
                    end) ;;
    if gbinaryTag tag then do (b, r') <- decode_binary_tag tag r ;; Ok (DBytes b, r', st)
    else if tag =? g_nilTag then Ok (DNil, r, st)
    else if grefTag tag then read_ref st r
    else if tag =? g_objectDefTag then do (x, st1) <- read_class_def st r ;; rl None st1 (snd x)
    else if gtypedListTag tag then typed_list_step tag st r
    else if guntypedListTag tag then untyped_list_step tag st r
    else Err ECodec.

  (* the class an instance tag denotes, and its Go type *)
  Definition object_at (idx : Z) (st : dstate) (bs : bytes) : dres dval :=
    match nth_z (dcls st) idx with
    | None => Err ECodec
    | Some (cname, fnames) =>
      match tm_lookup tm cname with
      | Some (TStruct n) => ro n fnames st bs
      | _ => Err ECodec
      end
    end.

  (* map.go: the entry loop shared by readMap / readTypedMap / readUntypedMap *)
  Definition re_step (kt vt : gtype) (acc : list (dval * dval)) (st : dstate) (bs : bytes) : dres (list (dval * dval)) :=
    match rd st bs with
    | Err EEof =>
      match bs with
      | t :: r => if t =? g_endFlag then Ok (acc, r, st) else Unmodelled
      | [] => Unmodelled
      end
    | Ok (k, r1, st1) =>
      do (y, st2) <- rd st1 r1 ;; let '(v, r2) := y in
      do k' <- (match kt with TIface => Ok k | _ => set_value te (dheap st2) kt k end) ;;
      do v' <- (match vt with TIface => Ok v | _ => set_value te (dheap st2) vt v end) ;;
      if hashable k' then re kt vt (entries_put acc k' v') st2 r2 else Err ECodec
    | Err er => Err er | Panic => Panic | Fuel => Fuel
    end.
  Definition map_body (kt vt : gtype) (st : dstate) (bs : bytes) : dres dval :=
    let idx := length (dheap st) in
    do (z, st2) <- re kt vt [] (heap_push st (RMap None)) bs ;; let '(es, r) := z in
    Ok (DMapV kt vt es, r, heap_set st2 idx (RMap (Some (DMapV kt vt es)))).

  (* decoder.go ReadData *)
  Definition rd_step (st : dstate) (bs : bytes) : dres dval :=
    match bs with
    | [] => Err ECodec                                         (* end of input at a tag position *)
    | tag :: r =>
      if tag =? g_endFlag then Err EEof
      else if tag =? g_nilTag then Ok (DNil, r, st)
      else if tag =? g_boolTrueTag then Ok (DBool true, r, st)
      else if tag =? g_boolFalseTag then Ok (DBool false, r, st)
      else if gintTag tag then do (z, r') <- decode_int_tag tag r ;; Ok (DInt KInt32 z, r', st)
      else if glongTag tag then do (z, r') <- decode_long_tag tag r ;; Ok (DInt KInt64 z, r', st)
      else if gdoubleTag tag then do (z, r') <- decode_double_tag tag r ;; Ok (DF64 z, r', st)
      else if gstringTag tag then do (s, r') <- decode_string_tag tag r ;; Ok (DStr s, r', st)
      else if gdateTag tag then do (t, r') <- decode_date_tag tag r ;; Ok (DTime (fst t) (snd t), r', st)
      else if gbinaryTag tag then do (b, r') <- decode_binary_tag tag r ;; Ok (DBytes b, r', st)
      else if grefTag tag then read_ref st r
      else if tag =? g_mapTypedTag then
        do (x, st1) <- read_type st r ;; let '(mty, r1) := x in
        match tm_lookup tm mty with
        | Some (TMap kt vt) => map_body kt vt st1 r1
        | Some _ => Unmodelled
        | None => Err ECodec
        end
      else if tag =? g_mapUntypedTag then map_body TIface TIface st r
      else if tag =? g_objectDefTag then do (x, st1) <- read_class_def st r ;; rd st1 (snd x)
      else if gobjectLenTag tag then object_at (wrap 8 (tag - g_objectLenTagMin)) st r
      else if tag =? g_objectTag then do (i, r') <- decode_int r ;; object_at i st r'
      else if gtypedListTag tag || guntypedListTag tag then rl (Some tag) st r
      else Err ECodec
    end.

  (* decoder.go readStruct: what a struct-kind field accepts *)
  Definition read_struct (st : dstate) (bs : bytes) : dres dval :=
    match bs with
    | [] => Err ECodec
    | tag :: r =>
      if tag =? g_endFlag then Err EEof
      else if tag =? g_nilTag then Ok (DNil, r, st)
      else if gdateTag tag then do (t, r') <- decode_date_tag tag r ;; Ok (DTime (fst t) (snd t), r', st)
      else if tag =? g_objectDefTag then do (x, st1) <- read_class_def st r ;; rd st1 (snd x)
      else if gobjectLenTag tag then object_at (wrap 8 (tag - g_objectLenTagMin)) st r
      else if tag =? g_objectTag then do (i, r') <- decode_int r ;; object_at i st r'
      else if grefTag tag then read_ref st r
      else Err ECodec
    end.

  (* object.go readField: the value the field holds afterwards *)
  Definition rf_core (t : gtype) (st : dstate) (bs : bytes) : dres dval :=
    match t with
    | TStr => do (s, r) <- decode_string bs ;; Ok (DStr s, r, st)
    | TInt k => do (x, r) <- dec_field_kind k bs ;; Ok (DInt k x, r, st)
    | TBool => do (b, r) <- decode_boolean bs ;; Ok (DBool b, r, st)
    | TF64 => do (d, r) <- decode_double bs ;; Ok (DF64 d, r, st)
    | TF32 => do (d, r) <- decode_double bs ;; Ok (DF32 (narrow d), r, st)
    | TStruct _ | TPtr (TStruct _) | TTime =>
      do (x, st1) <- read_struct st bs ;; let '(s, r) := x in
      do v <- set_value te (dheap st1) t s ;; Ok (v, r, st1)
    | TMap _ _ => rm t st bs
    | TSlice _ | TBytes =>
      match rl None st bs with
      | Err EEof => (* "ignore nil slice": only the end marker is known to have consumed exactly one byte *)
        match bs with
        | tg :: r => if tg =? g_endFlag then Ok (zero te t, r, st) else Unmodelled
        | [] => Unmodelled
        end
      | Ok (m, r, st1) => do v <- set_slice te (dheap st1) t m ;; Ok (v, r, st1)
      | Err er => Err er | Panic => Panic | Fuel => Fuel
      end
    | TIface | TOther => Err ECodec
    | TPtr _ => Unmodelled
    end.
  (* readScalarTag: class definitions in front of the value of a field of scalar type are read
     and registered first (the struct, list and map readers handle the definition tag themselves) *)
  Definition scalar_type (t : gtype) : bool :=
    match t with TStr | TInt _ | TBool | TF64 | TF32 => true | _ => false end.
  Definition rf_step (t : gtype) (st : dstate) (bs : bytes) : dres dval :=
    match bs with
    | tag :: r =>
      if scalar_type t && (tag =? g_objectDefTag)
      then do (x, st1) <- read_class_def st r ;; rf t st1 (snd x)
      else rf_core t st bs
    | [] => rf_core t st bs
    end.

  (* map.go readMap(dest) *)
  Definition rm_step (t : gtype) (st : dstate) (bs : bytes) : dres dval :=
    match t, bs with
    | _, [] => Err ECodec
    | TMap kt vt, tag :: r =>
      if tag =? g_nilTag then Ok (zero te t, r, st)
      else if grefTag tag then
        do (x, st1) <- read_ref st r ;; let '(v, r1) := x in
        do v' <- set_value te (dheap st1) t v ;; Ok (v', r1, st1)
      else if tag =? g_objectDefTag then do (x, st1) <- read_class_def st r ;; rm t st1 (snd x)
      else if tag =? g_mapTypedTag then do (x, st1) <- read_type st r ;; map_body kt vt st1 (snd x)
      else if tag =? g_mapUntypedTag then map_body kt vt st r
      else Err ECodec
    | _, _ => Unmodelled
    end.

  (* object.go readObject: the wire fields in the order of the class definition *)
  Definition rfs_step (gfields : list (name * gtype)) (wire : list name) (acc : list (name * dval))
             (st : dstate) (bs : bytes) : dres (list (name * dval)) :=
    match wire with
    | [] => Ok (acc, bs, st)
    | w :: ws =>
      match find_field gfields w with
      | None => do (x, st1) <- rd st bs ;; rfs gfields ws acc st1 (snd x)         (* unknown field: consume its value *)
      | Some (gn, gt) =>
        do (x, st1) <- rf gt st bs ;; let '(v, r) := x in
        rfs gfields ws (assoc_set acc gn v) st1 r
      end
    end.
  Definition ro_step (n : name) (wire : list name) (st : dstate) (bs : bytes) : dres dval :=
    match te_lookup te n with
    | None => Err ECodec
    | Some gfields =>
      (* a class definition in which two wire names bind to one Go field (s and S): the second
         assignment of a null or empty value leaves the first one in place in the code (readField
         skips the Set call); that corner is outside the modelled fragment *)
      if has_dup (bound_names gfields wire) then Unmodelled else
      let idx := length (dheap st) in
      let zeros := map (fun p => (fst p, zero te (snd p))) gfields in
      do (x, st1) <- rfs gfields wire zeros (heap_push st (RObj n None)) bs ;; let '(fs, r) := x in
      Ok (DPtr idx n, r, heap_set st1 idx (RObj n (Some fs)))
    end.
  Definition step_readers : readers :=
    {| R_rd := rd_step; R_rl := rl_step; R_rf := rf_step; R_ro := ro_step; R_rm := rm_step;
       R_rn := rn_step; R_rz := rz_step; R_re := re_step; R_rfs := rfs_step |}.
End Step.



Fixpoint readers_at (te : tenv) (tm : typmap) (fuel : nat) : readers :=
  match fuel with
  | O => {| R_rd := fun _ _ => Fuel; R_rl := fun _ _ _ => Fuel; R_rf := fun _ _ _ => Fuel; R_ro := fun _ _ _ _ => Fuel;
            R_rm := fun _ _ _ => Fuel; R_rn := fun _ _ _ _ => Fuel; R_rz := fun _ _ _ => Fuel;
            R_re := fun _ _ _ _ _ => Fuel; R_rfs := fun _ _ _ _ _ => Fuel |}
  | S f => step_readers te tm (readers_at te tm f)
  end.

(* Decoder.Decode / ToObject: fresh tables; fuel linear in the input *)
Definition decode_fuel (bs : bytes) : nat := 8 * length bs + 16.
Definition decode (te : tenv) (tm : typmap) (bs : bytes) : dres dval :=
  R_rd (readers_at te tm (decode_fuel bs)) dstate0 bs.
