(* Hand-written model of the reflection-driven encoder: WriteData, writeObject, writeClsDef,
   writeList, writeMap, checkEncodeRefMap, writeRef (encoder.go, object.go, list.go, map.go,
   ref.go), function by function.  Scalars go through the generated leaf encoders
   (GoLeaf.gencodeInt/Long/Double/Date) and the hand models of encodeString/encodeBinary.

   A Go value is given as a tree `gval` carrying exactly the run-time information the code
   looks at: reflect kinds, the type names reflect reports (TypeName / Name()), pointer and
   data-pointer identities (as abstract addresses), Go field names, and the order MapKeys
   returned (an oracle).  Cycles and sharing are expressed by repeating an address. *)
From Coq Require Import ZArith List Bool.
From GH Require Import Base.GoSem Base.Result Base.FloatBits Base.Utf8 Gen.GoConsts Gen.GoLeaf
  Model.Scalars Model.Strings Spec.Grammar.
Import ListNotations.
Open Scope Z_scope.

Inductive rkind := RStruct | RSlice | RMap.
Definition rkind_eqb (a b : rkind) : bool :=
  match a, b with RStruct, RStruct | RSlice, RSlice | RMap, RMap => true | _, _ => false end.

Inductive gval :=
| VNil                                         (* nil interface, nil pointer (any level) *)
| VBool (b : bool)
| VInt (k : ikind) (z : Z)
| VF32 (bits : Z)
| VF64 (bits : Z)
| VStr (rs : list Z)
| VBytes (bs : bytes)                          (* a []byte passed by value *)
| VTime (sec nsec : Z)
| VStruct (addr : Z) (tyname : name) (fields : list (name * gval))
                                               (* addr: the pointer it was reached through; 0 = by value *)
| VSlice (addr : Z) (tyname : name) (items : list gval)   (* addr: data pointer; tyname = TypeName(type) *)
| VMap (addr : Z) (tyname : name) (entries : list (gval * gval))  (* tyname = type.Name(), [] if unnamed *)
| VSeen (k : rkind) (addr : Z)                 (* a pointer/slice/map already written: contents not repeated *)
| VUnexported                                  (* the value of an unexported struct field *)
| VBad.                                        (* chan, func, complex, uintptr, unsafe.Pointer *)

Definition namemap := list (name * name).
Fixpoint name_eqb (a b : name) : bool :=
  match a, b with
  | [], [] => true
  | x :: a', y :: b' => (x =? y) && name_eqb a' b'
  | _, _ => false
  end.
Fixpoint nm_lookup (nm : namemap) (k : name) : option name :=
  match nm with
  | [] => None
  | (k', v) :: r => if name_eqb k k' then Some v else nm_lookup r k
  end.

Record estate := {
  ecls : list (name * list name);        (* clsDefList *)
  erefs : list (Z * rkind);              (* refMap in insertion order: ordinal = position *)
  enm : namemap;                         (* nameMap (the encoder inserts a struct name it does not find) *)
  eout : list bytes                      (* one entry per Write call, most recent last *)
}.
Definition estate0 (nm : namemap) : estate := {| ecls := []; erefs := []; enm := nm; eout := [] |}.

Definition emit (st : estate) (chunk : bytes) : estate :=
  {| ecls := ecls st; erefs := erefs st; enm := enm st; eout := eout st ++ [chunk] |}.
Definition ebytes (st : estate) : bytes := concat (eout st).

Definition eres := result estate.

(* util.go lowerName / capitalizeName on code points *)
Definition lower_name (n : name) : name :=
  match n with
  | c :: r => if (65 <=? c) && (c <=? 90) then (c + g_asciiGap) :: r else n
  | [] => []
  end.
Definition capitalize_name (n : name) : name :=
  match n with
  | c :: r => if (97 <=? c) && (c <=? 122) then (c - g_asciiGap) :: r else n
  | [] => []
  end.

(* reflection.go arrayRootElemName: what follows the last ']' (or, without one, the last '['),
   then what follows the last '*' *)
Fixpoint after_last (c : Z) (s : name) : option name :=
  match s with
  | [] => None
  | x :: r => match after_last c r with
              | Some t => Some t
              | None => if x =? c then Some r else None
              end
  end.
Definition array_root_elem_name (s : name) : name :=
  let s1 := match after_last 93 s with
            | Some t => t
            | None => match after_last 91 s with Some t => t | None => s end
            end in
  match after_last 42 s1 with Some t => t | None => s1 end.
Definition interface_type_name : name := [105; 110; 116; 101; 114; 102; 97; 99; 101; 32; 123; 125]. (* "interface {}" *)

(* ref.go checkEncodeRefMap: the table is keyed by address AND kind (a list and its first element
   share an address).  A key that can never match (by-value structs, empty slices) is modelled
   as address 0.  Returns (Some ordinal) for a hit, else None together with the extended table. *)
Fixpoint ref_find (refs : list (Z * rkind)) (addr : Z) (k : rkind) (i : Z) : option Z :=
  match refs with
  | [] => None
  | (a, k') :: r => if (a =? addr) && rkind_eqb k k' && negb (addr =? 0) then Some i else ref_find r addr k (i + 1)
  end.
Definition check_ref (st : estate) (k : rkind) (addr : Z) : option Z * estate :=
  match ref_find (erefs st) addr k 0 with
  | Some i => (Some i, st)
  | None => (None, {| ecls := ecls st; erefs := erefs st ++ [(addr, k)]; enm := enm st; eout := eout st |})
  end.

Definition write_ref (st : estate) (i : Z) : estate :=
  emit (emit st [g_refStartTag]) (gencodeInt (swrap 32 i)).

Fixpoint cls_index (cls : list (name * list name)) (n : name) (i : Z) : option Z :=
  match cls with
  | [] => None
  | (n', _) :: r => if name_eqb n n' then Some i else cls_index r n (i + 1)
  end.

(* object.go writeClsDef: 'C' name count fieldname*, one Write call each *)
Definition write_cls_def (st : estate) (cname : name) (fnames : list name) : estate :=
  let st1 := emit st [g_objectDefTag] in
  let st2 := emit st1 (encode_string cname) in
  let st3 := emit st2 (gencodeInt (swrap 32 (Z.of_nat (length fnames)))) in
  let lowered := map lower_name fnames in
  let st4 := fold_left (fun s f => emit s (encode_string f)) lowered st3 in
  {| ecls := ecls st4 ++ [(cname, lowered)]; erefs := erefs st4; enm := enm st4; eout := eout st4 |}.

Definition write_double (st : estate) (bits : Z) : eres :=
  match gencodeDouble bits with
  | Ok bs => Ok (emit st bs)
  | Err e => Err e | Panic => Panic | Fuel => Fuel
  end.

Definition list_header (st : estate) (tyname : name) (n : Z) : estate :=
  match nm_lookup (enm st) tyname with
  | Some ltn =>
    if name_eqb interface_type_name (array_root_elem_name tyname)
    then emit (emit st [g_listFixedUntypedTag]) (gencodeInt (swrap 32 n))
    else if n <=? g_listFixedTypedLenMax
         then emit (emit st [wrap 8 (g_listFixedTypedLenTagMin + wrap 8 n)]) (encode_string ltn)
         else emit (emit (emit st [g_listFixedTypedStartTag]) (encode_string ltn)) (gencodeInt (swrap 32 n))
  | None => emit (emit st [g_listFixedUntypedTag]) (gencodeInt (swrap 32 n))
  end.

Fixpoint write_data (v : gval) (st : estate) : eres :=
  match v with
  | VNil => Ok (emit st [g_nilTag])
  | VBool b => Ok (emit st [if b then g_boolTrueTag else g_boolFalseTag])
  | VInt k z => match enc_kind k z with Ok bs => Ok (emit st bs) | Err e => Err e | Panic => Panic | Fuel => Fuel end
  | VF32 b => write_double st (widen b)
  | VF64 b => write_double st b
  | VStr rs => Ok (emit st (encode_string rs))
  | VBytes bs => Ok (emit st (encode_binary bs))
  | VTime s n => Ok (emit st (gencodeDate s n))
  | VUnexported => Err ECodec
  | VBad => Err ECodec
  | VSeen k addr =>
    match ref_find (erefs st) addr k 0 with
    | Some i => Ok (write_ref st i)
    | None => Panic                                                         (* ill-formed input of the model *)
    end
  | VStruct addr ty fields =>
    match check_ref st RStruct addr with
    | (Some i, st1) => Ok (write_ref st1 i)
    | (None, st1) =>
      let '(cname, st2) :=
        match nm_lookup (enm st1) ty with
        | Some c => (c, st1)
        | None => (ty, {| ecls := ecls st1; erefs := erefs st1; enm := enm st1 ++ [(ty, ty)]; eout := eout st1 |})
        end in
      let '(idx, st3) :=
        match cls_index (ecls st2) cname 0 with
        | Some i => (i, st2)
        | None => (Z.of_nat (length (ecls st2)), write_cls_def st2 cname (map fst fields))
        end in
      let st4 := if idx <=? g_objectTagMaxLen
                 then emit st3 [wrap 8 (wrap 8 idx + g_objectLenTagMin)]
                 else emit (emit st3 [g_objectTag]) (gencodeInt (swrap 32 idx)) in
      (fix go (fs : list (name * gval)) (s : estate) : eres :=
         match fs with
         | [] => Ok s
         | (_, fv) :: r => match write_data fv s with Ok s' => go r s' | e => e end
         end) fields st4
    end
  | VSlice addr ty items =>
    match check_ref st RSlice (if (length items =? 0)%nat then 0 else addr) with
    | (Some i, st1) => Ok (write_ref st1 i)
    | (None, st1) =>
      let st2 := list_header st1 ty (Z.of_nat (length items)) in
      (fix go (l : list gval) (s : estate) : eres :=
         match l with
         | [] => Ok s
         | x :: r => match write_data x s with Ok s' => go r s' | e => e end
         end) items st2
    end
  | VMap addr ty entries =>
    match entries with
    | [] => Ok (emit st [g_nilTag])            (* nil or empty map: null, no ordinal *)
    | _ =>
      match check_ref st RMap addr with
      | (Some i, st1) => Ok (write_ref st1 i)
      | (None, st1) =>
        let st2 := match nm_lookup (enm st1) ty with
                   | Some mn => emit (emit st1 [g_mapTypedTag]) (encode_string mn)
                   | None => emit st1 [g_mapUntypedTag]
                   end in
        match (fix go (l : list (gval * gval)) (s : estate) : eres :=
                 match l with
                 | [] => Ok s
                 | (k, x) :: r =>
                   match write_data k s with
                   | Ok s1 => match write_data x s1 with Ok s2 => go r s2 | e => e end
                   | e => e
                   end
                 end) entries st2 with
        | Ok s => Ok (emit s [g_endFlag])
        | e => e
        end
      end
    end
  end.

(* Encoder.Encode / ToBytes: fresh tables, the given name map *)
Definition encode (nm : namemap) (v : gval) : result bytes :=
  match write_data v (estate0 nm) with
  | Ok st => Ok (ebytes st)
  | Err e => Err e | Panic => Panic | Fuel => Fuel
  end.

(* the Write calls of an encode, for the failing-writer property *)
Definition encode_writes (nm : namemap) (v : gval) : result (list bytes) :=
  match write_data v (estate0 nm) with
  | Ok st => Ok (eout st)
  | Err e => Err e | Panic => Panic | Fuel => Fuel
  end.
