(* Hand-written model of string.go and binary.go (after the tag is known for the decoders). *)
From Coq Require Import ZArith List Bool.
From GH Require Import Base.GoSem Base.Result Base.Utf8 Gen.GoConsts Gen.GoLeaf Model.Scalars.
Import ListNotations.
Open Scope Z_scope.

Definition zlen {A} (l : list A) : Z := Z.of_nat (length l).

(* ---- encodeString on the code points of the value ---- *)
Definition enc_str_final (rs : list Z) : bytes :=
  let n := zlen rs in
  if n <=? g_stringShortMaxLen then wrap 8 (g_stringShortLenMin + n) :: utf8_encs rs
  else if n <=? g_stringMiddleMaxLen then
    wrap 8 (Z.shiftr n 8 + g_stringMiddleLenMin) :: wrap 8 n :: utf8_encs rs
  else g_stringFinalChunk :: wrap 8 (Z.shiftr n 8) :: wrap 8 n :: utf8_encs rs.

Fixpoint enc_str_chunks (fuel : nat) (rs : list Z) : bytes :=
  match fuel with
  | O => enc_str_final rs
  | S f =>
    if g_stringChunkSize <? zlen rs then
      g_stringChunk :: wrap 8 (Z.shiftr g_stringChunkSize 8) :: wrap 8 g_stringChunkSize ::
        utf8_encs (firstn (Z.to_nat g_stringChunkSize) rs) ++ enc_str_chunks f (skipn (Z.to_nat g_stringChunkSize) rs)
    else enc_str_final rs
  end.

Definition encode_string (rs : list Z) : bytes :=
  match rs with
  | [] => [g_stringShortLenMin]
  | _ => enc_str_chunks (length rs) rs
  end.

(* ---- decodeStringValue ---- *)
Definition get_string_len (tag : Z) (r : bytes) : result (Z * bytes) :=
  if gstringShortTag tag then Ok (wrap 8 (tag - g_stringShortLenMin), r)
  else if gstringMiddleTag tag then
    do (bf, r') <- read_full 1 r ;; Ok (wrap 8 (tag - g_stringMiddleLenMin) * 256 + be_val bf, r')
  else if gstringChunkTag tag then
    do (bf, r') <- read_full 2 r ;; Ok (be_val bf, r')
  else Err ECodec.

Fixpoint dec_str_loop (fuel : nat) (tag len : Z) (r : bytes) (acc : list Z) : result (list Z * bytes) :=
  match fuel with
  | O => Fuel
  | S f =>
    let '(rs, r1) := read_runes (Z.to_nat len) r in
    let acc' := acc ++ rs in
    if gstringEndTag tag then Ok (acc', r1)
    else match r1 with
         | [] => Ok (acc', r1)                         (* io.EOF at the next tag: what was read so far *)
         | t :: r2 =>
           if gstringTag t then
             do (len', r3) <- get_string_len t r2 ;; dec_str_loop f t len' r3 acc'
           else Err ECodec
         end
  end.

Definition decode_string_tag (tag : Z) (r : bytes) : result (list Z * bytes) :=
  if tag =? g_nilTag then Ok ([], r)
  else do (len, r') <- get_string_len tag r ;; dec_str_loop (S (length r')) tag len r' [].
Definition decode_string (bs : bytes) : result (list Z * bytes) :=
  do (t, r) <- read_tag bs ;; decode_string_tag t r.

(* ---- encodeBinary ---- *)
Definition enc_bin_final (bs : bytes) : bytes :=
  let n := zlen bs in
  if n <=? g_binaryShortTagMaxLen then wrap 8 (g_binaryShortLenTagMin + n) :: bs
  else g_binaryFinalChunk :: wrap 8 (Z.shiftr n 8) :: wrap 8 n :: bs.

Fixpoint enc_bin_chunks (fuel : nat) (bs : bytes) : bytes :=
  match fuel with
  | O => enc_bin_final bs
  | S f =>
    if g_binaryChunkSize <? zlen bs then
      g_binaryChunk :: wrap 8 (Z.shiftr g_binaryChunkSize 8) :: wrap 8 g_binaryChunkSize ::
        firstn (Z.to_nat g_binaryChunkSize) bs ++ enc_bin_chunks f (skipn (Z.to_nat g_binaryChunkSize) bs)
    else enc_bin_final bs
  end.

Definition encode_binary (bs : bytes) : bytes :=
  match bs with
  | [] => [g_binaryShortLenTagMin]
  | _ => enc_bin_chunks (length bs) bs
  end.

(* ---- decodeBinaryValue ---- *)
Definition get_binary_len (tag : Z) (r : bytes) : result (Z * bytes) :=
  if gbinaryShortTag tag then Ok (wrap 8 (tag - g_binaryShortLenTagMin), r)
  else if gbinaryMiddleTag tag then
    do (bf, r') <- read_full 1 r ;; Ok (wrap 8 (tag - g_binaryMiddleLenTagMin) * 256 + be_val bf, r')
  else do (bf, r') <- read_full 2 r ;; Ok (be_val bf, r').

(* io.ReadFull whose EOF errors are tolerated: as many bytes as there are, up to n *)
Definition read_upto (n : nat) (bs : bytes) : bytes * bytes := (firstn n bs, skipn n bs).

Fixpoint dec_bin_loop (fuel : nat) (tag len : Z) (r : bytes) (acc : bytes) : result (bytes * bytes) :=
  match fuel with
  | O => Fuel
  | S f =>
    let '(x, r1) := read_upto (Z.to_nat len) r in
    let acc' := acc ++ x in
    if gbinaryEndTag tag then Ok (acc', r1)
    else match r1 with
         | [] => Ok (acc', r1)
         | t :: r2 =>
           if gbinaryTag t then
             do (len', r3) <- get_binary_len t r2 ;; dec_bin_loop f t len' r3 acc'
           else Err ECodec
         end
  end.

Definition decode_binary_tag (tag : Z) (r : bytes) : result (bytes * bytes) :=
  if tag =? g_binaryShortLenTagMin then Ok ([], r)
  else do (len, r') <- get_binary_len tag r ;; dec_bin_loop (S (length r')) tag len r' [].
Definition decode_binary (bs : bytes) : result (bytes * bytes) :=
  do (t, r) <- read_tag bs ;; decode_binary_tag t r.
