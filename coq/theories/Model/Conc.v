(* C12: threads as resumptions over a shared store (name map, type map, package variables):
   atomic reads and writes of shared locations interleaved with private computation; a schedule
   picks the next thread.  The generic theorem readers_commute is proved here; its instantiation
   to the encoder model and the regenerated write footprint of the source are in Proofs/. *)
From Coq Require Import List Arith Lia Bool.
Import ListNotations.

Section Conc.
  Variables (key val res : Type).
  Variable key_eqb : key -> key -> bool.
  Definition store := key -> option val.

  (* a thread: private computation interleaved with atomic accesses to the shared store *)
  Inductive prog :=
  | Ret (r : res)
  | Rd (k : key) (cont : option val -> prog)
  | Wr (k : key) (v : val) (cont : prog).

  Definition upd (s : store) k v : store := fun k' => if key_eqb k' k then Some v else s k'.

  (* run alone *)
  Fixpoint alone (fuel : nat) (s : store) (p : prog) : option res :=
    match fuel with O => None | S fuel =>
      match p with
      | Ret r => Some r
      | Rd k c => alone fuel s (c (s k))
      | Wr k v c => alone fuel (upd s k v) c
      end end.

  (* one atomic step of thread i of a pool of threads *)
  Definition step1 (s : store) (p : prog) : store * prog :=
    match p with
    | Ret r => (s, Ret r)
    | Rd k c => (s, c (s k))
    | Wr k v c => (upd s k v, c)
    end.
  Fixpoint step_at (i : nat) (s : store) (ps : list prog) : store * list prog :=
    match ps, i with
    | [], _ => (s, [])
    | p :: ps', O => let '(s', p') := step1 s p in (s', p' :: ps')
    | p :: ps', S i' => let '(s', ps'') := step_at i' s ps' in (s', p :: ps'')
    end.
  (* a schedule is any list of thread indices *)
  Fixpoint run (sched : list nat) (s : store) (ps : list prog) : store * list prog :=
    match sched with
    | [] => (s, ps)
    | i :: sched' => let '(s', ps') := step_at i s ps in run sched' s' ps'
    end.

  (* write-free programs *)
  Inductive wfree : prog -> Prop :=
  | wf_ret r : wfree (Ret r)
  | wf_rd k c : (forall o, wfree (c o)) -> wfree (Rd k c).

  (* "p, run alone on s, is some number of steps away from q" *)
  Inductive reaches (s : store) : prog -> prog -> Prop :=
  | r_refl p : reaches s p p
  | r_step p q : reaches s (snd (step1 s p)) q -> reaches s p q.

  Lemma step1_wfree s p : wfree p -> fst (step1 s p) = s /\ wfree (snd (step1 s p)).
  Proof. destruct 1; cbn; auto using wfree. Qed.

  Lemma step_at_wfree i : forall s ps, Forall wfree ps ->
    let '(s', ps') := step_at i s ps in
    s' = s /\ Forall wfree ps' /\ length ps' = length ps /\
    (forall j, nth_error ps' j = nth_error ps j \/
               (j = i /\ exists p, nth_error ps j = Some p /\ nth_error ps' j = Some (snd (step1 s p)))).
  Proof.
    induction i as [|i IH]; intros s ps HF; destruct ps as [|p ps']; cbn.
    - repeat split; auto.
    - inversion HF; subst. destruct (step1_wfree s p H1) as [A B].
      destruct (step1 s p) as [s' p'] eqn:E. cbn in *. subst. repeat split; auto.
      intros [|j]; cbn; [right; split; auto; exists p; rewrite E; auto | left; auto].
    - repeat split; auto.
    - inversion HF; subst. specialize (IH s ps' H2). destruct (step_at i s ps') as [s' ps''].
      destruct IH as (A & B & C & D). subst. repeat split; auto. { cbn; congruence. }
      intros [|j]; cbn; [left; auto|]. destruct (D j) as [E|[E1 (q & E2 & E3)]]; [left; auto|].
      right. split; [congruence|]. exists q; auto.
  Qed.

  (* every thread's state under any schedule is a state of its own solo run, and the store never changes *)
  Theorem readers_commute sched : forall s ps, Forall wfree ps ->
    let '(s', ps') := run sched s ps in
    s' = s /\ length ps' = length ps /\
    forall j p, nth_error ps j = Some p -> exists p', nth_error ps' j = Some p' /\ reaches s p p'.
  Proof.
    induction sched as [|i sched IH]; intros s ps HF; cbn.
    - repeat split; auto. intros j p H; exists p; split; auto using reaches.
    - pose proof (step_at_wfree i s ps HF) as H. destruct (step_at i s ps) as [s1 ps1].
      destruct H as (A & B & C & D). subst s1.
      specialize (IH s ps1 B). destruct (run sched s ps1) as [s2 ps2]. destruct IH as (E & F & G).
      repeat split; [assumption|congruence|].
      intros j p Hj. destruct (D j) as [Same|[-> (q & Q1 & Q2)]].
      + rewrite <- Same in Hj. destruct (G j p Hj) as (p' & P1 & P2). exists p'; auto.
      + rewrite Q1 in Hj; inversion Hj; subst q. destruct (G i _ Q2) as (p' & P1 & P2).
        exists p'; split; auto. apply r_step. exact P2.
  Qed.

  (* consequence: once a thread has returned under some schedule, that is its solo result *)
  Lemma reaches_ret s p r : reaches s p (Ret r) -> wfree p -> exists n, alone n s p = Some r.
  Proof.
    intros H. remember (Ret r) as q eqn:Q. induction H as [p | p q H IH]; intros W; subst.
    - exists 1. reflexivity.
    - destruct W as [r0 | k c Hc].
      + cbn in *. apply IH; auto using wfree.
      + cbn in *. destruct (IH eq_refl (Hc (s k))) as [n Hn]. exists (S n). exact Hn.
  Qed.
End Conc.

Arguments Ret {key val res}. Arguments Rd {key val res}. Arguments Wr {key val res}.
