(* Hand-written model of the scalar decoders (int.go, long.go), following the Go code
   statement by statement; the constants come from the generated GoConsts, the encoders
   encodeInt / encodeLong are the generated GoLeaf.gencodeInt / gencodeLong. *)
From Coq Require Import ZArith List Bool.
From GH Require Import Base.GoSem Base.Result Gen.GoConsts Gen.GoLeaf.
Import ListNotations.
Open Scope Z_scope.

Definition between (lo hi t : Z) : bool := (lo <=? t) && (t <=? hi).

(* decodeIntValue after the tag is known (getTag) *)
Definition decode_int_tag (tag : Z) (r : bytes) : result (Z * bytes) :=
  if between g_int1ByteTagMin g_int1ByteTagMax tag then
    Ok (swrap 8 (wrap 8 (tag - g_int1ByteZero)), r)
  else if between g_int2ByteTagMin g_int2ByteTagMax tag then
    do (bf, r') <- read_full 1 r ;;
    match bf with
    | [b0] => Ok (swrap 16 (wrap 8 (tag - g_int2ByteZero) * 256 + b0), r')
    | _ => Panic end
  else if between g_int3ByteTagMin g_int3ByteTagMax tag then
    do (bf, r') <- read_full 2 r ;;
    match bf with
    | [b1; b0] =>
      let b := wrap 8 (tag - g_int3ByteZero) in
      let fb := if 0 <? Z.land b 8 then 255 else 0 in
      Ok (swrap 32 (fb * 16777216 + b * 65536 + b1 * 256 + b0), r')
    | _ => Panic end
  else if tag =? g_int4ByteStartTag then
    do (bf, r') <- read_full 4 r ;;
    match bf with
    | [b3; b2; b1; b0] => Ok (swrap 32 (b3 * 16777216 + b2 * 65536 + b1 * 256 + b0), r')
    | _ => Panic end
  else Err ECodec.

Definition read_tag (bs : bytes) : result (Z * bytes) :=
  match bs with [] => Err EEof | t :: r => Ok (t, r) end.

Definition decode_int (bs : bytes) : result (Z * bytes) :=
  do (t, r) <- read_tag bs ;; decode_int_tag t r.

(* decodeLongValue *)
Definition decode_long_tag (tag : Z) (r : bytes) : result (Z * bytes) :=
  if between g_long1ByteTagMin g_long1ByteTagMax tag then
    Ok (swrap 8 (wrap 8 (tag - g_long1ByteZero)), r)
  else if between g_long2ByteTagMin g_long2ByteTagMax tag then
    do (bf, r') <- read_full 1 r ;;
    match bf with
    | [b0] => Ok (swrap 16 (wrap 8 (tag - g_long2ByteZero) * 256 + b0), r')
    | _ => Panic end
  else if between g_long3ByteTagMin g_long3ByteTagMax tag then
    do (bf, r') <- read_full 2 r ;;
    match bf with
    | [b1; b0] =>
      let b := wrap 8 (tag - g_long3ByteZero) in
      let fb := if 0 <? Z.land b 128 then 255 else 0 in
      Ok (swrap 32 (fb * 16777216 + b * 65536 + b1 * 256 + b0), r')
    | _ => Panic end
  else if tag =? g_long4ByteStartTag then
    do (bf, r') <- read_full 4 r ;;
    match bf with
    | [b3; b2; b1; b0] => Ok (swrap 32 (b3 * 16777216 + b2 * 65536 + b1 * 256 + b0), r')
    | _ => Panic end
  else if tag =? g_longStartTag then
    do (bf, r') <- read_full 8 r ;;
    Ok (swrap 64 (be_val bf), r')
  else Err ECodec.

Definition decode_long (bs : bytes) : result (Z * bytes) :=
  do (t, r) <- read_tag bs ;; decode_long_tag t r.

(* lengths of the shortest forms, written from the grammar's ranges (independent of GoConsts) *)
Definition spec_int_len (v : Z) : nat :=
  if between (-16) 47 v then 1 else if between (-2048) 2047 v then 2
  else if between (-262144) 262143 v then 3 else 5.
Definition spec_long_len (v : Z) : nat :=
  if between (-8) 15 v then 1 else if between (-2048) 2047 v then 2
  else if between (-262144) 262143 v then 3
  else if between (-2147483648) 2147483647 v then 5 else 9.

(* ---- the ten Go integer kinds (encoder.go WriteData, object.go readField) ---- *)
Inductive ikind := KInt | KInt8 | KInt16 | KInt32 | KInt64 | KUint | KUint8 | KUint16 | KUint32 | KUint64.

Definition kind_lo (k : ikind) : Z :=
  match k with
  | KInt | KInt64 => -9223372036854775808 | KInt8 => -128 | KInt16 => -32768 | KInt32 => -2147483648
  | _ => 0 end.
Definition kind_hi (k : ikind) : Z :=
  match k with
  | KInt | KInt64 => 9223372036854775807 | KInt8 => 127 | KInt16 => 32767 | KInt32 => 2147483647
  | KUint | KUint64 => 18446744073709551615 | KUint8 => 255 | KUint16 => 65535 | KUint32 => 4294967295 end.
Definition in_kind (k : ikind) (z : Z) : Prop := kind_lo k <= z <= kind_hi k.
Definition in_kindb (k : ikind) (z : Z) : bool := (kind_lo k <=? z) && (z <=? kind_hi k).

(* is the wire type of the kind the 32-bit int (else the 64-bit long) *)
Definition kind_wire_int (k : ikind) : bool :=
  match k with KInt | KInt8 | KInt16 | KInt32 | KUint8 | KUint16 => true | _ => false end.

(* WriteData on a value of an integer kind: the narrowing casts of encoder.go *)
Definition enc_kind (k : ikind) (z : Z) : result bytes :=
  match k with
  | KInt => if between (-2147483648) 2147483647 z then Ok (gencodeInt (swrap 32 z)) else Err ECodec
  | KInt8 | KInt16 | KInt32 | KUint8 | KUint16 => Ok (gencodeInt (swrap 32 z))
  | KInt64 | KUint | KUint32 | KUint64 => Ok (gencodeLong (swrap 64 z))
  end.

(* readField on a field of an integer kind: readInt/readLong, then reflect.SetInt/SetUint
   (which truncate to the width of the field) *)
Definition set_kind (k : ikind) (i : Z) : Z :=
  match k with
  | KInt | KInt64 => swrap 64 i | KInt8 => swrap 8 i | KInt16 => swrap 16 i | KInt32 => swrap 32 i
  | KUint | KUint64 => wrap 64 i | KUint8 => wrap 8 i | KUint16 => wrap 16 i | KUint32 => wrap 32 i end.
Definition dec_field_kind (k : ikind) (bs : bytes) : result (Z * bytes) :=
  if kind_wire_int k then do (i, r) <- decode_int bs ;; Ok (set_kind k i, r)
  else do (i, r) <- decode_long bs ;; Ok (set_kind k i, r).

(* ReadData on an integer tag: int32 or int64, the canonical wire types *)
Definition dec_top_int (bs : bytes) : result (Z * bytes) :=
  do (t, r) <- read_tag bs ;;
  if gintTag t then decode_int_tag t r
  else if glongTag t then decode_long_tag t r
  else Err ECodec.

(* ---- double (double.go): encodeDouble is the generated GoLeaf.gencodeDouble ---- *)
From GH Require Import Base.FloatBits Base.TimeSem.

Definition decode_double_tag (tag : Z) (r : bytes) : result (Z * bytes) :=
  if tag =? g_doubleZeroTag then Ok (of_int64 0, r)
  else if tag =? g_doubleOneTag then Ok (of_int64 1, r)
  else if tag =? g_doubleOneByteTag then
    do (bt, r') <- read_tag r ;; Ok (of_int64 (swrap 8 bt), r')
  else if tag =? g_doubleTwoByteTag then
    do (bf, r') <- read_full 2 r ;; Ok (of_int64 (swrap 16 (be_val bf)), r')
  else if tag =? g_doubleFourByteTag then
    do (bf, r') <- read_full 4 r ;; Ok (widen (be_val bf), r')
  else if tag =? g_doubleLongStartTag then
    do (bf, r') <- read_full 8 r ;; Ok (be_val bf, r')
  else Err ECodec.
Definition decode_double (bs : bytes) : result (Z * bytes) :=
  do (t, r) <- read_tag bs ;; decode_double_tag t r.

(* a float32 struct field: WriteData widens it, readField narrows the decoded double (reflect.SetFloat) *)
Definition enc_f32 (b32 : Z) : result bytes := gencodeDouble (widen b32).
Definition dec_f32_field (bs : bytes) : result (Z * bytes) :=
  do (d, r) <- decode_double bs ;; Ok (narrow d, r).

(* ---- date (date.go): encodeDate is the generated GoLeaf.gencodeDate ---- *)
Definition decode_date_tag (tag : Z) (r : bytes) : result ((Z * Z) * bytes) :=
  if tag =? g_dateMillisStartTag then
    do (bf, r') <- read_full 8 r ;; Ok (unix_milli (swrap 64 (be_val bf)), r')
  else if tag =? g_dateSecondStartTag then
    do (bf, r') <- read_full 4 r ;; Ok ((swrap 32 (be_val bf), 0), r')
  else Err ECodec.
Definition decode_date (bs : bytes) : result ((Z * Z) * bytes) :=
  do (t, r) <- read_tag bs ;; decode_date_tag t r.
