(* C11, decoder side: a decoder instance across calls.  The instance state is the decoder state of
   Model/Decoder.v (type-name list, class table, reference table); the type map is the caller's.
   Decoder.Reset replaces the three tables (GoFacts: it assigns reader, typList, clsDefList,
   refList and depth - every field but typMap).  The one-shot entry points (Decode, ReadFrom,
   Serializer.ToObject/ReadFrom) reset first; the streaming ones (ReadObject, Serializer.Read) do
   not.  A failed call leaves the tables it had built up to the failure; the model does not
   compute them (an error carries no state), so every history entry carries the state that a
   failure of its call leaves behind, chosen adversarially: the theorems hold for every choice. *)
From Coq Require Import ZArith List Bool.
From GH Require Import Base.Result Model.Scalars Spec.Grammar Model.Decoder.
Import ListNotations.

Inductive dop :=
| DDecode (bs : bytes)      (* Decode / ReadFrom / ToObject on the bytes bs: Reset, then ReadObject *)
| DRead (bs : bytes)        (* ReadObject / Serializer.Read with the stream positioned at bs *)
| DReset.

(* outcome of a call: the value returned and the unread rest of the stream, or the error class *)
Definition doutcome := result (dval * bytes).

Section DS.
  Variables (te : tenv) (tm : typmap).

  Definition dcall (st : dstate) (bs : bytes) (junk : dstate) : dstate * doutcome :=
    match R_rd (readers_at te tm (decode_fuel bs)) st bs with
    | Ok (v, rest, st') => (st', Ok (v, rest))
    | Err e => (junk, Err e) | Panic => (junk, Panic) | Fuel => (junk, Fuel)
    end.

  Definition dstep (st : dstate) (o : dop * dstate) : dstate * doutcome :=
    match fst o with
    | DDecode bs => dcall dstate0 bs (snd o)
    | DRead bs => dcall st bs (snd o)
    | DReset => (dstate0, Ok (DNil, []))
    end.

  Definition drun (h : list (dop * dstate)) (st : dstate) : dstate := fold_left (fun s o => fst (dstep s o)) h st.

  (* the outcomes of a sequence of calls *)
  Fixpoint douts (h : list (dop * dstate)) (st : dstate) : list doutcome :=
    match h with [] => [] | o :: r => snd (dstep st o) :: douts r (fst (dstep st o)) end.

  Definition resets (o : dop) : bool := match o with DRead _ => false | _ => true end.
End DS.
