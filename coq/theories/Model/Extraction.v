(* C16: reflection.go ExtractTypeNameMap / ExtractValue and TypeMapOf / FetchType.

   Go types are described by a table (tyenv) indexed by type ids; a Go value is a table of nodes
   (xheap) indexed by addresses, so that cyclic values are ordinary finite objects.  The harness
   exports both tables by reflection from the very value it hands to the implementation.

   ExtractValue(v, extractor):
     1. follow pointers and interface values (stopping when a pointer is met twice); a nil
        interface ends the walk, a nil pointer continues with a fresh zero value of the pointed-to
        type (all pointer levels removed);
     2. extractor: cut the walk when TypeName(type) is already a key of the type map, else
        register the type (and its custom name when a value of the type implements CodecNamable
        and was not reached through an unexported field);
     3. descend: list/array elements (a fresh element when empty), map keys and values (fresh
        ones when empty), struct fields.
   Then every name-map entry beginning with '[' is rewritten (formatArrayTypeName, root element
   name replaced by its wire name). *)
From Coq Require Import ZArith List Bool Arith.
From GH Require Import Base.Result Model.Scalars Spec.Grammar Model.Encoder.
Import ListNotations.

Definition tid := nat.
Inductive tkind :=
| KRaw                                   (* bool, ints, floats, string, chan, func, ... *)
| KIface
| KPtr (e : tid)
| KSlice (e : tid)
| KArray (n : nat) (e : tid)
| KMap (k v : tid)
| KStruct (fs : list (bool * tid)).      (* per field: exported?, type *)
Record tdesc := {
  tname : name;            (* reflection.go TypeName: Name(), or String() when unnamed *)
  tshort : name;           (* Type.Name() - what FetchType uses as key *)
  tkd : tkind;
  tcodec : option name     (* HessianCodecName() when a VALUE of the type implements CodecNamable *)
}.
Definition tyenv := list tdesc.

Inductive xbody :=
| XRaw
| XNil                                    (* nil pointer, interface, (len 0) slice or map *)
| XPtr (a : nat)
| XIface (a : nat)
| XList (l : list nat)                    (* slice or array elements *)
| XMap (es : list (nat * nat))
| XStruct (fs : list nat).
Record xnode := { xty : tid; xbd : xbody }.
Definition xheap := list xnode.

(* the two maps; Go maps: assignment replaces *)
Definition tymap := list (name * tid).
Fixpoint tm_get (m : tymap) (k : name) : option tid :=
  match m with [] => None | (k', v) :: r => if name_eqb k k' then Some v else tm_get r k end.
Fixpoint tm_set (m : tymap) (k : name) (v : tid) : tymap :=
  match m with
  | [] => [(k, v)]
  | (k', v') :: r => if name_eqb k k' then (k, v) :: r else (k', v') :: tm_set r k v
  end.
Fixpoint nm_set (m : namemap) (k v : name) : namemap :=
  match m with
  | [] => [(k, v)]
  | (k', v') :: r => if name_eqb k k' then (k, v) :: r else (k', v') :: nm_set r k v
  end.
Record xstate := { xtm : tymap; xnm : namemap }.

Definition kind_of (env : tyenv) (t : tid) : option tkind := option_map tkd (nth_error env t).

(* UnpackPtrType; the fuel is the size of the table: a pointer type that is its own element
   (type P *P) makes the real loop spin, which the model reports as Fuel *)
Fixpoint unpack_ptr_type (fuel : nat) (env : tyenv) (t : tid) : result tid :=
  match fuel with
  | O => Fuel
  | S f => match kind_of env t with
           | None => Panic
           | Some (KPtr e) => unpack_ptr_type f env e
           | Some _ => Ok t
           end
  end.

(* the extractor closure of ExtractTypeNameMap *)
Definition extractor (env : tyenv) (t : tid) (ro : bool) (st : xstate) : option xstate :=
  match nth_error env t with
  | None => None
  | Some d =>
    match tm_get (xtm st) (tname d) with
    | Some _ => None
    | None =>
      let tm1 := tm_set (xtm st) (tname d) t in
      let nm1 := nm_set (xnm st) (tname d) (tname d) in
      match (if ro then None else tcodec d) with
      | Some cn => Some {| xtm := tm_set tm1 cn t; xnm := nm_set nm1 (tname d) cn |}
      | None => Some {| xtm := tm1; xnm := nm1 |}
      end
    end
  end.

(* what the walk is asked to look at: a node of the heap, or a fresh zero value of a type *)
Inductive child :=
| CNode (a : nat) (ro : bool)
| CZero (t : tid) (ro : bool).
(* what step 1 arrives at: nothing, or a value that is neither pointer nor interface *)
Inductive target :=
| TStop                       (* nil interface, or a pointer chain leading back to itself *)
| TNode (a : nat) (ro : bool)
| TZero (t : tid) (ro : bool).

Definition mem_nat (a : nat) (l : list nat) : bool := existsb (Nat.eqb a) l.

(* the pointer-following loop of ExtractValue on heap node a.  An interface value and what it
   holds are handled in one step (an interface never holds an interface), so that every
   recursive call has added a pointer to seen *)
Definition ptr_step (env : tyenv) (h : xheap) (n : xnode) (seen : list nat) : result (option nat + target) :=
  match xbd n with
  | XNil => do t <- unpack_ptr_type (S (length env)) env (xty n) ;; Ok (inr (TZero t false))
  | XPtr b => if mem_nat b seen then Ok (inr TStop) else Ok (inl (Some b))
  | _ => Panic
  end.
Fixpoint unwrap (fuel : nat) (env : tyenv) (h : xheap) (a : nat) (ro : bool) (seen : list nat) : result target :=
  match fuel with
  | O => Fuel
  | S f =>
    match nth_error h a with
    | None => Panic
    | Some n =>
      match kind_of env (xty n) with
      | None => Panic
      | Some (KPtr _) =>
        do r <- ptr_step env h n seen ;;
        match r with inr tg => Ok tg | inl (Some b) => unwrap f env h b ro (b :: seen) | inl None => Panic end
      | Some KIface =>
        match xbd n with
        | XNil => Ok TStop
        | XIface c =>
          match nth_error h c with
          | None => Panic
          | Some m =>
            match kind_of env (xty m) with
            | None | Some KIface => Panic
            | Some (KPtr _) =>
              do r <- ptr_step env h m seen ;;
              match r with inr tg => Ok tg | inl (Some b) => unwrap f env h b ro (b :: seen) | inl None => Panic end
            | Some _ => Ok (TNode c ro)
            end
          end
        | _ => Panic
        end
      | Some _ => Ok (TNode a ro)
      end
    end
  end.

Section Walk.
Variable env : tyenv.
Variable h : xheap.

Definition resolve (c : child) : result target :=
  match c with
  | CNode a ro => unwrap (S (length h)) env h a ro []
  | CZero t ro =>
    match kind_of env t with
    | None => Panic
    | Some KIface => Ok TStop                       (* a nil interface *)
    | Some (KPtr _) => do u <- unpack_ptr_type (S (length env)) env t ;; Ok (TZero u false)
                       (* also when u is an interface type: the loop breaks and the extractor sees it *)
    | Some _ => Ok (TZero t ro)
    end
  end.

Definition target_type (tg : target) : option (tid * bool) :=
  match tg with
  | TStop => None
  | TNode a ro => option_map (fun n => (xty n, ro)) (nth_error h a)
  | TZero t ro => Some (t, ro)
  end.

Fixpoint zip_fields (ts : list (bool * tid)) (l : list nat) (ro : bool) : result (list child) :=
  match ts, l with
  | [], [] => Ok []
  | (ex, _) :: tr, x :: r => do cs <- zip_fields tr r ro ;; Ok (CNode x (ro || negb ex) :: cs)
  | _, _ => Panic
  end.
(* step 3: what ExtractValue descends into, in order *)
Definition children_of (tg : target) : result (list child) :=
  match tg with
  | TStop => Ok []
  | TZero t ro =>
    match kind_of env t with
    | Some (KSlice e) | Some (KArray O e) => Ok [CZero e false]
    | Some (KArray n e) => Ok (repeat (CZero e ro) n)
    | Some (KMap k v) => Ok [CZero k false; CZero v false]
    | Some (KStruct fs) => Ok (map (fun f => CZero (snd f) (ro || negb (fst f))) fs)
    | Some KRaw | Some KIface => Ok []
    | _ => Panic
    end
  | TNode a ro =>
    match nth_error h a with
    | None => Panic
    | Some n =>
      match kind_of env (xty n), xbd n with
      | Some (KSlice e), XNil | Some (KSlice e), XList [] | Some (KArray _ e), XList [] => Ok [CZero e false]
      | Some (KSlice _), XList l | Some (KArray _ _), XList l => Ok (map (fun x => CNode x ro) l)
      | Some (KMap k v), XNil | Some (KMap k v), XMap [] => Ok [CZero k false; CZero v false]
      | Some (KMap _ _), XMap es => Ok (flat_map (fun e => [CNode (fst e) ro; CNode (snd e) ro]) es)
      | Some (KStruct ts), XStruct fs => zip_fields ts fs ro
      | Some KRaw, _ => Ok []
      | _, _ => Panic
      end
    end
  end.

(* ExtractValue *)
Fixpoint walk (fuel : nat) (c : child) (st : xstate) : result xstate :=
  match fuel with
  | O => Fuel
  | S f =>
    do tg <- resolve c ;;
    match target_type tg with
    | None => match tg with TStop => Ok st | _ => Panic end
    | Some (t, ro) =>
      match extractor env t ro st with
      | None => Ok st
      | Some st1 =>
        do cs <- children_of tg ;;
        (fix each (l : list child) (s : xstate) : result xstate :=
           match l with [] => Ok s | x :: r => do s1 <- walk f x s ;; each r s1 end) cs st1
      end
    end
  end.
End Walk.

(* ---- the rewriting of list names ---- *)
Definition remove_char (c : Z) (s : name) : name := filter (fun x => negb (x =? c)) s.
Definition format_array_type_name (s : name) : name := remove_char 42 (remove_char 93 s).  (* ']' then '*' *)

Fixpoint is_prefix (p s : name) : bool :=
  match p, s with
  | [], _ => true
  | x :: p', y :: s' => (x =? y) && is_prefix p' s'
  | _ :: _, [] => false
  end.
(* strings.Replace(s, old, new, -1) for a non-empty old: leftmost, non-overlapping *)
Fixpoint replace_all (old new s : name) (skip : nat) : name :=
  match s with
  | [] => []
  | c :: r =>
    match skip with
    | S k => replace_all old new r k
    | O => if is_prefix old s then new ++ replace_all old new r (length old - 1) else c :: replace_all old new r 0
    end
  end.
(* with an empty old, Replace inserts new before every rune and at the end: modelled only for
   the strings that occur (names are ASCII in every case the harness exports; otherwise Unmodelled) *)
Definition go_replace (s old new : name) : name :=
  match old with
  | [] => new ++ flat_map (fun c => c :: new) s
  | _ => replace_all old new s 0
  end.

Definition rewrite_entry (builtin : namemap) (st : xstate) (k v : name) : xstate :=
  match v with
  | 91 :: _ =>
    let v1 := format_array_type_name v in
    let el := array_root_elem_name v1 in
    let v2 := match nm_lookup (xnm st) el with
              | Some rn => go_replace v1 el rn
              | None => match nm_lookup builtin el with Some rn => go_replace v1 el rn | None => v1 end
              end in
    let nm1 := nm_set (nm_set (xnm st) k v2) v2 v2 in
    let tm1 := match tm_get (xtm st) k with Some t => tm_set (xtm st) v2 t | None => xtm st end in
    {| xtm := tm1; xnm := nm1 |}
  | _ => st
  end.
(* range over the name map as it stood when the loop began; an entry the loop itself inserts
   is of the form (v, v) with v already rewritten, and visiting it again changes nothing in
   any run observed (assumption recorded in the trusted base) *)
Definition rewrite_lists (builtin : namemap) (st : xstate) : xstate :=
  fold_left (fun s kv => match nm_lookup (xnm s) (fst kv) with
                         | Some v => rewrite_entry builtin s (fst kv) v
                         | None => s
                         end) (xnm st) st.

Definition xstate0 : xstate := {| xtm := []; xnm := [] |}.
Definition walk_fuel (env : tyenv) : nat := S (S (length env)).

(* ExtractTypeNameMap(v): root = None for the untyped nil *)
Definition extract_walk (env : tyenv) (h : xheap) (root : option nat) : result xstate :=
  match root with
  | None => Ok xstate0
  | Some a => walk env h (walk_fuel env) (CNode a false) xstate0
  end.
Definition extract (builtin : namemap) (env : tyenv) (h : xheap) (root : option nat) : result xstate :=
  do st <- extract_walk env h root ;; Ok (rewrite_lists builtin st).

(* ---- TypeMapOf / FetchType ---- *)
Definition is_container (k : tkind) : bool :=
  match k with KSlice _ | KArray _ _ | KMap _ _ => true | _ => false end.
Fixpoint fetch (env : tyenv) (fuel : nat) (t : tid) (acc : tymap * list tid) : result (tymap * list tid) :=
  match fuel with
  | O => Fuel
  | S f =>
    do u <- unpack_ptr_type (S (length env)) env t ;;
    match nth_error env u with
    | None => Panic
    | Some d =>
      let '(tm, walked) := acc in
      match tkd d with
      | KRaw | KIface | KPtr _ => Ok acc
      | KSlice e | KArray _ e =>
        if mem_nat u walked then Ok acc else fetch env f e (tm, u :: walked)
      | KMap k v =>
        if mem_nat u walked then Ok acc else
        do a1 <- fetch env f k (tm, u :: walked) ;; fetch env f v a1
      | KStruct fs =>
        match tm_get tm (tshort d) with
        | Some _ => Ok acc
        | None =>
          (fix fields (l : list (bool * tid)) (a : tymap * list tid) : result (tymap * list tid) :=
             match l with [] => Ok a | (_, ft) :: r => do a1 <- fetch env f ft a ;; fields r a1 end)
            fs (tm_set tm (tshort d) u, walked)
        end
      end
    end
  end.
Definition type_map_of (env : tyenv) (t : tid) : result tymap :=
  do r <- fetch env (S (S (length env + length env))) t ([], []) ;; Ok (fst r).
