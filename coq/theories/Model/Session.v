(* C11: an encoder instance across calls.  The instance state is the encoder state of
   Model/Encoder.v (class table, reference table, name map); Reset replaces the two tables
   (GoFacts: Encoder.Reset assigns writer, clsDefList, refMap - every field but nameMap).
   One-shot entry points (Encode, WriteTo, Serializer.ToBytes/WriteTo) reset first; the
   streaming ones (WriteObject, Serializer.Write) do not. *)
From Coq Require Import ZArith List Bool.
From GH Require Import Base.Result Model.Scalars Spec.Grammar Model.Encoder.
Import ListNotations.

Definition reset (st : estate) : estate := {| ecls := []; erefs := []; enm := enm st; eout := [] |}.

Inductive eop :=
| OEncode (v : gval)        (* Encode / WriteTo / ToBytes: Reset, then WriteObject *)
| OWrite (v : gval)         (* WriteObject / Serializer.Write on the current stream *)
| OReset.

(* outcome of a call: the bytes written by it, or the error class *)
Definition outcome := result bytes.

(* the state after a failed call keeps the tables the call had built so far; only the name map
   matters to later one-shot calls, and a failed call leaves it as a successful prefix would:
   it is kept unchanged here (validated by the harness: complete maps are compared before/after) *)
Definition estep (st : estate) (o : eop) : estate * outcome :=
  match o with
  | OEncode v =>
    match write_data v (reset st) with
    | Ok st' => (st', Ok (ebytes st'))
    | Err e => (reset st, Err e) | Panic => (reset st, Panic) | Fuel => (reset st, Fuel)
    end
  | OWrite v =>
    let st0 := {| ecls := ecls st; erefs := erefs st; enm := enm st; eout := [] |} in
    match write_data v st0 with
    | Ok st' => (st', Ok (ebytes st'))
    | Err e => (st, Err e) | Panic => (st, Panic) | Fuel => (st, Fuel)
    end
  | OReset => (reset st, Ok [])
  end.

Definition erun (h : list eop) (st : estate) : estate := fold_left (fun s o => fst (estep s o)) h st.

(* a name map is complete for a value when every struct type name in it has an entry *)
Fixpoint nm_complete (nm : namemap) (v : gval) : bool :=
  match v with
  | VStruct _ ty fs =>
    (match nm_lookup nm ty with Some _ => true | None => false end) && forallb (fun f => nm_complete nm (snd f)) fs
  | VSlice _ _ l => forallb (nm_complete nm) l
  | VMap _ _ es => forallb (fun e => nm_complete nm (fst e) && nm_complete nm (snd e)) es
  | _ => true
  end.
Definition op_complete (nm : namemap) (o : eop) : bool :=
  match o with OEncode v | OWrite v => nm_complete nm v | OReset => true end.
