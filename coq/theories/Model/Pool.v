(* pool.go as a state machine.  Objects are numbered by creation; ownership is a function,
   so "held by one caller at a time" is true by construction and what has to be proved is
   that idle objects have no holder.  Get and Return are the try-receive / try-send of a
   select-with-default on a FIFO buffered channel of capacity cap (GoFacts.chan_ops records
   that both channel operations of pool.go sit in such a select). *)
From Coq Require Import List Arith Bool.
Import ListNotations.

Record pool := { cap : nat; idle : list nat; holder : nat -> option nat; next : nat }.
Inductive pop := PGet (c : nat) | PReturn (c : nat) (o : nat).

Definition set_holder (h : nat -> option nat) o v : nat -> option nat :=
  fun o' => if Nat.eqb o' o then v else h o'.
Definition opt_eqb (a : option nat) (c : nat) := match a with Some c' => Nat.eqb c c' | None => false end.

Definition new_pool (size : nat) : pool := {| cap := size; idle := []; holder := fun _ => None; next := 0 |}.

Definition pstep (p : pool) (x : pop) : pool * option nat (* object handed out *) :=
  match x with
  | PGet c =>
    match idle p with
    | o :: rest => ({| cap := cap p; idle := rest; holder := set_holder (holder p) o (Some c); next := next p |}, Some o)
    | [] => ({| cap := cap p; idle := []; holder := set_holder (holder p) (next p) (Some c); next := S (next p) |}, Some (next p))
    end
  | PReturn c o =>
    if opt_eqb (holder p o) c then                       (* client protocol: return only what you hold *)
      if Nat.ltb (length (idle p)) (cap p)
      then ({| cap := cap p; idle := idle p ++ [o]; holder := set_holder (holder p) o None; next := next p |}, None)
      else ({| cap := cap p; idle := idle p; holder := set_holder (holder p) o None; next := next p |}, None)
    else (p, None)
  end.

Definition run_ops (ops : list pop) (p : pool) : pool := fold_left (fun q x => fst (pstep q x)) ops p.

(* trace of observables: object handed out (Get) and fill level after every operation *)
Fixpoint run_trace (ops : list pop) (p : pool) : list (option nat * nat) :=
  match ops with
  | [] => []
  | x :: r => let '(p', out) := pstep p x in (out, length (idle p')) :: run_trace r p'
  end.
