(* time.Time as the pair (seconds since the Unix epoch, nanoseconds in [0, 1e9)).
   The four calls the code makes are modelled here (trusted, validated by correspondence):
   IsZero, Unix, Nanosecond, UnixMilli. *)
From Coq Require Import ZArith Bool.
Open Scope Z_scope.

(* January 1, year 1, 00:00:00 UTC *)
Definition zero_time_sec : Z := -62135596800.
Definition time_is_zero (sec nsec : Z) : bool := (sec =? zero_time_sec) && (nsec =? 0).

(* time.UnixMilli(ms): floor division, so that nsec is in [0, 1e9) *)
Definition unix_milli (ms : Z) : Z * Z := (ms / 1000, (ms mod 1000) * 1000000).

(* years 1..9999: 0001-01-01T00:00:00Z .. 9999-12-31T23:59:59.999999999Z *)
Definition year_ok (sec : Z) : Prop := -62135596800 <= sec <= 253402300799.
