From Coq Require Import ZArith List.
Import ListNotations.

Definition bytes := list Z.

(* outcome of a model operation.  Panic is first-class so that "never panics" can be stated;
   Fuel is the out-of-fuel outcome every theorem excludes by statement. *)
Inductive err := EEof | EUnexpEof | ECodec.
Inductive result (A : Type) :=
| Ok (a : A)
| Err (e : err)
| Panic
| Fuel.
Arguments Ok {A}. Arguments Err {A}. Arguments Panic {A}. Arguments Fuel {A}.

Definition bind {A B} (r : result A) (f : A -> result B) : result B :=
  match r with Ok a => f a | Err e => Err e | Panic => Panic | Fuel => Fuel end.
Notation "'do' x <- r ;; k" := (bind r (fun x => k)) (at level 200, x pattern, r at level 100, k at level 200).

(* io.ReadFull(reader, buf[0:n]) on an in-memory reader: EOF when nothing could be read,
   ErrUnexpectedEOF when fewer than n bytes were there *)
Fixpoint take_n (n : nat) (bs : bytes) : option (bytes * bytes) :=
  match n with
  | O => Some ([], bs)
  | S n' => match bs with
            | [] => None
            | b :: r => match take_n n' r with Some (x, r') => Some (b :: x, r') | None => None end
            end
  end.
Definition read_full (n : nat) (bs : bytes) : result (bytes * bytes) :=
  match n, bs with
  | O, _ => Ok ([], bs)
  | _, [] => Err EEof
  | _, _ => match take_n n bs with Some p => Ok p | None => Err EUnexpEof end
  end.
