(* UTF-8 as Go does it: string([]rune) on the encode side, bufio.Reader.ReadRune on the
   decode side (an invalid or truncated sequence yields U+FFFD and consumes one byte). *)
From Coq Require Import ZArith List Bool.
From GH Require Import Base.Result.
Import ListNotations.
Open Scope Z_scope.

Definition rune_error : Z := 65533.
Definition valid_runeb (r : Z) : bool := ((0 <=? r) && (r <? 55296)) || ((57344 <=? r) && (r <=? 1114111)).
Definition valid_rune (r : Z) : Prop := (0 <= r < 55296) \/ (57344 <= r <= 1114111).

Definition utf8_enc1 (r : Z) : bytes :=
  if r <? 128 then [r]
  else if r <? 2048 then [192 + r / 64; 128 + r mod 64]
  else if r <? 65536 then [224 + r / 4096; 128 + (r / 64) mod 64; 128 + r mod 64]
  else [240 + r / 262144; 128 + (r / 4096) mod 64; 128 + (r / 64) mod 64; 128 + r mod 64].
Definition utf8_enc (r : Z) : bytes := if valid_runeb r then utf8_enc1 r else utf8_enc1 rune_error.
Definition utf8_encs (rs : list Z) : bytes := flat_map utf8_enc rs.

Definition is_cont (b : Z) : bool := (128 <=? b) && (b <=? 191).
Definition inr (lo hi b : Z) : bool := (lo <=? b) && (b <=? hi).

(* one rune from the front of a non-empty byte string *)
Definition utf8_dec (bs : bytes) : option (Z * bytes) :=
  match bs with
  | [] => None
  | b0 :: r0 =>
    if b0 <? 128 then Some (b0, r0)
    else
      let bad := Some (rune_error, r0) in
      if inr 194 223 b0 then
        match r0 with
        | b1 :: r1 => if is_cont b1 then Some ((b0 - 192) * 64 + (b1 - 128), r1) else bad
        | _ => bad end
      else if inr 224 239 b0 then
        match r0 with
        | b1 :: b2 :: r2 =>
          let lo := if b0 =? 224 then 160 else 128 in
          let hi := if b0 =? 237 then 159 else 191 in
          if inr lo hi b1 && is_cont b2 then Some ((b0 - 224) * 4096 + (b1 - 128) * 64 + (b2 - 128), r2) else bad
        | _ => bad end
      else if inr 240 244 b0 then
        match r0 with
        | b1 :: b2 :: b3 :: r3 =>
          let lo := if b0 =? 240 then 144 else 128 in
          let hi := if b0 =? 244 then 143 else 191 in
          if inr lo hi b1 && is_cont b2 && is_cont b3
          then Some ((b0 - 240) * 262144 + (b1 - 128) * 4096 + (b2 - 128) * 64 + (b3 - 128), r3) else bad
        | _ => bad end
      else bad
  end.

(* readRunes(reader, buf[0:n]): up to n runes, stopping early at end of input *)
Fixpoint read_runes (n : nat) (bs : bytes) : list Z * bytes :=
  match n with
  | O => ([], bs)
  | S n' =>
    match utf8_dec bs with
    | None => ([], bs)
    | Some (r, bs') => let '(rs, bs'') := read_runes n' bs' in (r :: rs, bs'')
    end
  end.
