(* Go integer semantics used by go2v and by the hand-written model:
   values are kept in the range of their type. *)
From Coq Require Import ZArith Lia List Bool.
Import ListNotations.
Open Scope Z_scope.
Ltac Zify.zify_post_hook ::= Z.div_mod_to_equations.

Definition wrap (n : Z) (z : Z) : Z := z mod 2 ^ n.
Definition swrap (n : Z) (z : Z) : Z := (z + 2 ^ (n - 1)) mod 2 ^ n - 2 ^ (n - 1).

Definition in_u8 z := 0 <= z < 256.
Definition in_i32 z := -2147483648 <= z <= 2147483647.
Definition in_i64 z := -9223372036854775808 <= z <= 9223372036854775807.
Definition in_u64 z := 0 <= z < 18446744073709551616.

Lemma wrap8_id z : 0 <= z < 256 -> wrap 8 z = z.
Proof. unfold wrap. change (2 ^ 8) with 256. lia. Qed.
Lemma wrap8_mod z : wrap 8 z = z mod 256.
Proof. reflexivity. Qed.
Lemma wrap8_range z : 0 <= wrap 8 z < 256.
Proof. unfold wrap. change (2 ^ 8) with 256. lia. Qed.
Lemma wrap16_mod z : wrap 16 z = z mod 65536.
Proof. reflexivity. Qed.
Lemma wrap32_mod z : wrap 32 z = z mod 4294967296.
Proof. reflexivity. Qed.
Lemma wrap64_mod z : wrap 64 z = z mod 18446744073709551616.
Proof. reflexivity. Qed.
Lemma swrap8_def z : swrap 8 z = (z + 128) mod 256 - 128.
Proof. reflexivity. Qed.
Lemma swrap16_def z : swrap 16 z = (z + 32768) mod 65536 - 32768.
Proof. reflexivity. Qed.
Lemma swrap32_def z : swrap 32 z = (z + 2147483648) mod 4294967296 - 2147483648.
Proof. reflexivity. Qed.
Lemma swrap64_def z : swrap 64 z = (z + 9223372036854775808) mod 18446744073709551616 - 9223372036854775808.
Proof. reflexivity. Qed.
Lemma swrap32_id z : in_i32 z -> swrap 32 z = z.
Proof. unfold in_i32. rewrite swrap32_def. lia. Qed.
Lemma swrap64_id z : in_i64 z -> swrap 64 z = z.
Proof. unfold in_i64. rewrite swrap64_def. lia. Qed.
Lemma swrap32_range z : in_i32 (swrap 32 z).
Proof. unfold in_i32. rewrite swrap32_def. lia. Qed.
Lemma swrap64_range z : in_i64 (swrap 64 z).
Proof. unfold in_i64. rewrite swrap64_def. lia. Qed.

Lemma shr8 z : Z.shiftr z 8 = z / 256. Proof. rewrite Z.shiftr_div_pow2 by lia. reflexivity. Qed.
Lemma shr16 z : Z.shiftr z 16 = z / 65536. Proof. rewrite Z.shiftr_div_pow2 by lia. reflexivity. Qed.
Lemma shr24 z : Z.shiftr z 24 = z / 16777216. Proof. rewrite Z.shiftr_div_pow2 by lia. reflexivity. Qed.
Lemma shr32 z : Z.shiftr z 32 = z / 4294967296. Proof. rewrite Z.shiftr_div_pow2 by lia. reflexivity. Qed.
Lemma shr40 z : Z.shiftr z 40 = z / 1099511627776. Proof. rewrite Z.shiftr_div_pow2 by lia. reflexivity. Qed.
Lemma shr48 z : Z.shiftr z 48 = z / 281474976710656. Proof. rewrite Z.shiftr_div_pow2 by lia. reflexivity. Qed.
Lemma shr56 z : Z.shiftr z 56 = z / 72057594037927936. Proof. rewrite Z.shiftr_div_pow2 by lia. reflexivity. Qed.

(* all 256 byte values, for facts decided by computation over the whole byte domain *)
Definition all_bytes : list Z := map Z.of_nat (seq 0 256).
Lemma in_all_bytes b : 0 <= b < 256 -> In b all_bytes.
Proof. intros H. unfold all_bytes. rewrite <- (Z2Nat.id b) by lia. apply in_map, in_seq. lia. Qed.
Lemma byte_forall (P : Z -> bool) : forallb P all_bytes = true -> forall b, 0 <= b < 256 -> P b = true.
Proof. intros F b Hb. rewrite forallb_forall in F. apply F, in_all_bytes, Hb. Qed.

(* big-endian bytes of a value, the way the Go code writes them: byte(v >> 8k) *)
Definition byte_at (v : Z) (k : Z) : Z := wrap 8 (Z.shiftr v (8 * k)).
Definition be_val (bs : list Z) : Z := fold_left (fun acc b => acc * 256 + b) bs 0.

Definition bytes_ok (bs : list Z) : Prop := Forall (fun b => 0 <= b < 256) bs.
Definition bytes_okb (bs : list Z) : bool := forallb (fun b => (0 <=? b) && (b <? 256)) bs.
