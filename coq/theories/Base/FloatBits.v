(* float32 / float64 as their bit patterns in Z; integer-only model of the five operations
   encodeDouble/decodeDouble need.  These definitions are TRUSTED to describe the hardware
   (amd64) and the Go conversions; they are validated by the correspondence run (C08). *)
From Coq Require Import ZArith Bool.
Open Scope Z_scope.

Definition p23 := 8388608. Definition p29 := 536870912. Definition p31 := 2147483648.
Definition p32 := 4294967296.
Definition p52 := 4503599627370496. Definition p63 := 9223372036854775808.
Definition p64 := 18446744073709551616.

Definition bitlen (m : Z) : Z := Z.log2 m + 1.   (* m > 0 *)

(* float32 -> float64, exact *)
Definition widen (b : Z) : Z :=
  let s := b / p31 in let e := (b / p23) mod 256 in let m := b mod p23 in
  if e =? 255 then (if m =? 0 then s * p63 + 2047 * p52 else s * p63 + 2047 * p52 + Z.lor (m * p29) (p52 / 2))
  else if e =? 0 then
    (if m =? 0 then s * p63
     else let k := bitlen m in s * p63 + (k + 873) * p52 + (m - 2 ^ (k - 1)) * 2 ^ (53 - k))
  else s * p63 + (e + 896) * p52 + m * p29.

(* round-to-nearest-even of sig / 2^shift *)
Definition rne (sig shift : Z) : Z :=
  let q := sig / 2 ^ shift in let r := sig mod 2 ^ shift in let half := 2 ^ (shift - 1) in
  if (half <? r) || ((r =? half) && Z.odd q) then q + 1 else q.

(* float64 -> float32, round to nearest even, subnormals, overflow to infinity, NaN quieted *)
Definition narrow (b : Z) : Z :=
  let s := b / p63 in let E := (b / p52) mod 2048 in let M := b mod p52 in
  if E =? 2047 then (if M =? 0 then s * p31 + 255 * p23 else s * p31 + 255 * p23 + Z.lor (M / p29) (p23 / 2))
  else if E =? 0 then s * p31
  else
    let x := E - 1023 in let sig := p52 + M in
    if -126 <=? x then
      let r := rne sig 29 in
      let bits := (x + 126) * p23 + r in
      if 255 * p23 <=? bits then s * p31 + 255 * p23 else s * p31 + bits
    else
      let shift := -97 - x in
      if 55 <? shift then s * p31 else s * p31 + rne sig shift.

Definition is_nan64 (b : Z) : bool := ((b / p52) mod 2048 =? 2047) && negb (b mod p52 =? 0).
Definition is_nan32 (b : Z) : bool := ((b / p23) mod 256 =? 255) && negb (b mod p23 =? 0).
Definition is_zero64 (b : Z) : bool := b mod p63 =? 0.

(* IEEE == on float64 *)
Definition f64_eq (a b : Z) : bool :=
  negb (is_nan64 a) && negb (is_nan64 b) && ((a =? b) || (is_zero64 a && is_zero64 b)).

(* int64(float64) as amd64 does it (CVTTSD2SQ): truncation toward zero; NaN and values
   outside the int64 range give the "integer indefinite" value -2^63 *)
Definition trunc64 (b : Z) : Z :=
  let s := b / p63 in let E := (b / p52) mod 2048 in let M := b mod p52 in
  if E =? 2047 then - p63
  else if E <? 1023 then 0
  else
    let x := E - 1023 in let sig := p52 + M in
    if 63 <=? x then - p63
    else
      let mag := if 52 <=? x then sig * 2 ^ (x - 52) else sig / 2 ^ (52 - x) in
      if s =? 1 then - mag else mag.

(* float64(int64), round to nearest even *)
Definition of_int64 (n : Z) : Z :=
  if n =? 0 then 0
  else
    let s := if n <? 0 then 1 else 0 in
    let a := Z.abs n in
    let p := Z.log2 a in
    if p <=? 52 then s * p63 + (1023 + p) * p52 + (a - 2 ^ p) * 2 ^ (52 - p)
    else s * p63 + (1023 + p) * p52 + (rne a (p - 52) - p52).

(* the equality the properties use: same number (either zero equals zero, NaN equals NaN) *)
Definition feq (a b : Z) : bool :=
  (is_nan64 a && is_nan64 b) || f64_eq a b.

Definition in_f64 (b : Z) : Prop := 0 <= b < p64.
Definition in_f32 (b : Z) : Prop := 0 <= b < p32.
